// Package shard wraps a bare RF=1 LeaderController (real WAL, real Pebble, real callbacks) for
// the sequential engines, and offers a decoded dump of a replica's database.
package shard

import (
	"context"
	"fmt"
	"path/filepath"
	"sort"
	"strings"
	"sync"
	"time"

	"github.com/oxia-db/oxia/common/concurrent"
	"github.com/oxia-db/oxia/proto"
	"github.com/oxia-db/oxia/server"
	"github.com/oxia-db/oxia/server/kv"
	"github.com/oxia-db/oxia/server/wal"
)

const Namespace = "default"

// KVFactory records the kv.KV instances handed out so that monitors can dump them.
type KVFactory struct {
	kv.Factory
	mu   sync.Mutex
	Last map[int64]kv.KV
}

func NewKVFactory(dataDir string) (*KVFactory, error) {
	f, err := kv.NewPebbleKVFactory(&kv.FactoryOptions{DataDir: dataDir, CacheSizeMB: 8})
	if err != nil {
		return nil, err
	}
	return &KVFactory{Factory: f, Last: map[int64]kv.KV{}}, nil
}

func (f *KVFactory) NewKV(namespace string, shardId int64) (kv.KV, error) {
	k, err := f.Factory.NewKV(namespace, shardId)
	if err == nil {
		f.mu.Lock()
		f.Last[shardId] = k
		f.mu.Unlock()
	}
	return k, err
}

func (f *KVFactory) KV(shardId int64) kv.KV {
	f.mu.Lock()
	defer f.mu.Unlock()
	return f.Last[shardId]
}

// WalFactory records the WALs handed out.
type WalFactory struct {
	wal.Factory
	mu   sync.Mutex
	Last map[int64]wal.Wal
}

func NewWalFactory(walDir string, segmentSize int32) *WalFactory {
	if segmentSize == 0 {
		segmentSize = 1 << 20
	}
	return &WalFactory{Factory: wal.NewWalFactory(&wal.FactoryOptions{BaseWalDir: walDir, Retention: time.Hour, SegmentSize: segmentSize, SyncData: true}),
		Last: map[int64]wal.Wal{}}
}

func (f *WalFactory) NewWal(namespace string, shard int64, p wal.CommitOffsetProvider) (wal.Wal, error) {
	w, err := f.Factory.NewWal(namespace, shard, p)
	if err == nil {
		f.mu.Lock()
		f.Last[shard] = w
		f.mu.Unlock()
	}
	return w, err
}

func (f *WalFactory) Wal(shard int64) wal.Wal {
	f.mu.Lock()
	defer f.mu.Unlock()
	return f.Last[shard]
}

type Leader struct {
	Dir   string
	Shard int64
	Term  int64
	LC    server.LeaderController
	KVF   *KVFactory
	WalF  *WalFactory
	Notif bool
	// TermAtOpen is the term the controller read back from its database when it was last (re)opened.
	TermAtOpen int64
}

func NewLeader(dir string, shardId int64, notifications bool) (*Leader, error) {
	l := &Leader{Dir: dir, Shard: shardId, Notif: notifications}
	var err error
	if l.KVF, err = NewKVFactory(filepath.Join(dir, "db")); err != nil {
		return nil, err
	}
	l.WalF = NewWalFactory(filepath.Join(dir, "wal"), 0)
	if err := l.start(); err != nil {
		return nil, err
	}
	return l, nil
}

func (l *Leader) start() error {
	lc, err := server.NewLeaderController(server.Config{NotificationsRetentionTime: time.Hour}, Namespace, l.Shard, nil, l.WalF, l.KVF)
	if err != nil {
		return fmt.Errorf("NewLeaderController: %w", err)
	}
	l.TermAtOpen = lc.Term()
	l.Term++
	if _, err := lc.NewTerm(&proto.NewTermRequest{Namespace: Namespace, Shard: l.Shard, Term: l.Term,
		Options: &proto.NewTermOptions{EnableNotifications: l.Notif}}); err != nil {
		_ = lc.Close()
		return fmt.Errorf("NewTerm: %w", err)
	}
	ctx, cancel := context.WithTimeout(context.Background(), 30*time.Second)
	defer cancel()
	if _, err := lc.BecomeLeader(ctx, &proto.BecomeLeaderRequest{Namespace: Namespace, Shard: l.Shard, Term: l.Term,
		ReplicationFactor: 1, FollowerMaps: map[string]*proto.EntryId{}}); err != nil {
		_ = lc.Close()
		return fmt.Errorf("BecomeLeader: %w", err)
	}
	l.LC = lc
	return nil
}

// Restart closes the controller gracefully and brings it back as leader in the next term.
func (l *Leader) Restart() error {
	if l.LC != nil {
		if err := l.LC.Close(); err != nil {
			return fmt.Errorf("Close: %w", err)
		}
		l.LC = nil
	}
	return l.start()
}

func (l *Leader) Close() {
	if l.LC != nil {
		_ = l.LC.Close()
		l.LC = nil
	}
	_ = l.KVF.Close()
	_ = l.WalF.Close()
}

func (l *Leader) Write(req *proto.WriteRequest) (*proto.WriteResponse, error) {
	req.Shard = &l.Shard
	type res struct {
		r   *proto.WriteResponse
		err error
	}
	ch := make(chan res, 1)
	go func() {
		r, err := l.LC.WriteBlock(context.Background(), req)
		ch <- res{r, err}
	}()
	select {
	case r := <-ch:
		return r.r, r.err
	case <-time.After(30 * time.Second):
		return nil, ErrTimeout
	}
}

var ErrTimeout = fmt.Errorf("harness: operation did not complete in 30s")

func collect[T any](run func(cb concurrent.StreamCallback[T])) ([]T, error) {
	var mu sync.Mutex
	var out []T
	done := make(chan error, 1)
	run(concurrent.NewStreamOnce(func(t T) error {
		mu.Lock()
		out = append(out, t)
		mu.Unlock()
		return nil
	}, func(err error) { done <- err }))
	select {
	case err := <-done:
		mu.Lock()
		defer mu.Unlock()
		return out, err
	case <-time.After(30 * time.Second):
		return nil, ErrTimeout
	}
}

func (l *Leader) Read(gets ...*proto.GetRequest) ([]*proto.GetResponse, error) {
	return collect(func(cb concurrent.StreamCallback[*proto.GetResponse]) {
		l.LC.Read(context.Background(), &proto.ReadRequest{Shard: &l.Shard, Gets: gets}, cb)
	})
}

func (l *Leader) List(start, end string, index *string) ([]string, error) {
	return collect(func(cb concurrent.StreamCallback[string]) {
		l.LC.List(context.Background(), &proto.ListRequest{Shard: &l.Shard, StartInclusive: start, EndExclusive: end, SecondaryIndexName: index}, cb)
	})
}

func (l *Leader) RangeScan(start, end string, index *string) ([]*proto.GetResponse, error) {
	return collect(func(cb concurrent.StreamCallback[*proto.GetResponse]) {
		l.LC.RangeScan(context.Background(), &proto.RangeScanRequest{Shard: &l.Shard, StartInclusive: start, EndExclusive: end, SecondaryIndexName: index}, cb)
	})
}

// DumpEntry is one key of a replica database with its value decoded where the layout is known.
type DumpEntry struct {
	Key string
	Raw []byte
}

// Dump returns every key of the shard's KV in engine order.
func Dump(k kv.KV) ([]DumpEntry, error) {
	it, err := k.RangeScan("", "")
	if err != nil {
		return nil, err
	}
	defer it.Close()
	var res []DumpEntry
	for ; it.Valid(); it.Next() {
		v, err := it.Value()
		if err != nil {
			return nil, err
		}
		res = append(res, DumpEntry{Key: it.Key(), Raw: append([]byte{}, v...)})
	}
	return res, nil
}

// CanonicalDump returns every key of a replica database except the node-local term keys, with values in a
// form that is comparable across replicas: notification batches (proto maps) are decoded and rendered with
// sorted keys, everything else is kept byte-exact.
func CanonicalDump(k kv.KV) (map[string]string, error) {
	d, err := Dump(k)
	if err != nil {
		return nil, err
	}
	res := map[string]string{}
	for _, e := range d {
		switch {
		case e.Key == "__oxia/term" || e.Key == "__oxia/term-options":
			continue
		case strings.HasPrefix(e.Key, "__oxia/notifications/"):
			// the value is stored through the storage-entry layer or raw depending on the writer; decode the batch
			nb := &proto.NotificationBatch{}
			if err := nb.UnmarshalVT(e.Raw); err != nil {
				res[e.Key] = "undecodable:" + fmt.Sprintf("%x", e.Raw)
				continue
			}
			keys := make([]string, 0, len(nb.Notifications))
			for nk := range nb.Notifications {
				keys = append(keys, nk)
			}
			sort.Strings(keys)
			var sb strings.Builder
			fmt.Fprintf(&sb, "shard=%d offset=%d ts=%d", nb.Shard, nb.Offset, nb.Timestamp)
			for _, nk := range keys {
				n := nb.Notifications[nk]
				fmt.Fprintf(&sb, " %q:%v", nk, n.Type)
				if n.VersionId != nil {
					fmt.Fprintf(&sb, ":v%d", *n.VersionId)
				}
				if n.KeyRangeLast != nil {
					fmt.Fprintf(&sb, ":end=%q", *n.KeyRangeLast)
				}
			}
			res[e.Key] = sb.String()
		default:
			res[e.Key] = fmt.Sprintf("%x", e.Raw)
		}
	}
	return res, nil
}

// DiffLimit bounds the number of differences DiffDumps lists.
var DiffLimit = 4

// DiffDumps describes the first differences between two canonical dumps ("" when equal).
func DiffDumps(a, b map[string]string) string {
	var diffs []string
	keys := map[string]bool{}
	for k := range a {
		keys[k] = true
	}
	for k := range b {
		keys[k] = true
	}
	sorted := make([]string, 0, len(keys))
	for k := range keys {
		sorted = append(sorted, k)
	}
	sort.Strings(sorted)
	for _, k := range sorted {
		va, oka := a[k]
		vb, okb := b[k]
		switch {
		case !oka:
			diffs = append(diffs, fmt.Sprintf("key %q only in the second", k))
		case !okb:
			diffs = append(diffs, fmt.Sprintf("key %q only in the first", k))
		case va != vb:
			diffs = append(diffs, fmt.Sprintf("key %q: %s vs %s", k, DescribeValue(k, va), DescribeValue(k, vb)))
		}
		if len(diffs) >= DiffLimit {
			break
		}
	}
	return strings.Join(diffs, "; ")
}

// DescribeValue renders a canonical value for humans: storage entries are decoded.
func DescribeValue(key, v string) string {
	if strings.HasPrefix(v, "shard=") || strings.HasPrefix(v, "undecodable:") {
		return v
	}
	raw := make([]byte, len(v)/2)
	if _, err := fmt.Sscanf(v, "%x", &raw); err != nil {
		return v
	}
	se := &proto.StorageEntry{}
	if err := se.UnmarshalVT(raw); err != nil || strings.HasPrefix(key, "__oxia/") && !strings.HasPrefix(key, "__oxia/session/") {
		return fmt.Sprintf("%q", raw)
	}
	return fmt.Sprintf("{value=%q version=%d mod=%d created=%d modified=%d session=%v identity=%v indexes=%d}", se.Value, se.VersionId, se.ModificationsCount,
		se.CreationTimestamp, se.ModificationTimestamp, se.SessionId, se.ClientIdentity, len(se.SecondaryIndexes))
}
