// Package ctl runs the real coordinator shard controller against real storage nodes (lib/replcluster) through a
// coordination-RPC layer and a metadata store that the harness owns: every request, execution, response and metadata
// write is recorded in one total order, can be delayed, lost (before or after it took effect) and the coordinator
// can be "crashed" at any of those points and restarted from what the metadata store holds.
package ctl

import (
	"context"
	"errors"
	"fmt"
	"hash/fnv"
	"io"
	"sort"
	"strconv"
	"sync"
	"sync/atomic"
	"time"

	"github.com/emirpasic/gods/v2/sets/linkedhashset"
	"google.golang.org/grpc/codes"
	"google.golang.org/grpc/health/grpc_health_v1"
	"google.golang.org/grpc/status"

	"github.com/oxia-db/oxia/coordinator/controllers"
	"github.com/oxia-db/oxia/coordinator/metadata"
	"github.com/oxia-db/oxia/coordinator/model"
	"github.com/oxia-db/oxia/coordinator/resources"
	"github.com/oxia-db/oxia/proto"

	rc "verif/lib/replcluster"
)

// ---------- records ----------

// Rec is one observation; Seq is a total order over all of them.
type Rec struct {
	Seq   int64  `json:"seq"`
	Inc   int    `json:"inc"`            // coordinator incarnation (0 = the harness itself: ghosts, probes)
	Phase string `json:"phase"`          // send | exec | recv | lost | store | crash | note
	Kind  string `json:"kind,omitempty"` // NewTerm | BecomeLeader | AddFollower | GetStatus | DeleteShard
	Node  string `json:"node,omitempty"`
	Term  int64  `json:"term"`
	OK    bool   `json:"ok,omitempty"`
	Err   string `json:"err,omitempty"`
	Head  string `json:"head,omitempty"`
	Note  string `json:"note,omitempty"`
	Call  int64  `json:"call,omitempty"`
}

func (r Rec) String() string {
	s := fmt.Sprintf("#%d i%d %s", r.Seq, r.Inc, r.Phase)
	if r.Kind != "" {
		s += " " + r.Kind
	}
	if r.Node != "" {
		s += " " + r.Node
	}
	s += fmt.Sprintf(" t=%d", r.Term)
	if r.Phase == "exec" || r.Phase == "recv" {
		if r.OK {
			s += " ok"
		} else {
			s += " err=" + r.Err
		}
	}
	if r.Head != "" {
		s += " head=" + r.Head
	}
	if r.Note != "" {
		s += " " + r.Note
	}
	return s
}

// Fate is what the harness does to one coordination request.
type Fate struct {
	DropReq   bool
	DropResp  bool
	DelayReq  time.Duration
	DelayResp time.Duration
}

// Incarnation is one life of the coordinator.
type Incarnation struct {
	ID   int
	dead atomic.Bool
	SC   controllers.ShardController
	SR   resources.StatusResource
}

func (i *Incarnation) Dead() bool { return i.dead.Load() }

// Observer receives every record synchronously, under the harness lock (so its shadow state is updated atomically
// with the record order). It must not call back into the harness.
type Observer func(h *Harness, r Rec, payload any)

type CrashPoint struct {
	Phase string // "store-before" | "store-after" | "send" | "exec" (after the node executed, before the answer)
	Kind  string // for send/exec: request kind ("" = any)
	Count int    // fire at the Count-th matching point from now (1 = next)
}

type Harness struct {
	C         *rc.Cluster
	Namespace string
	Shard     int64
	RF        int
	Seed      uint64

	mu        sync.Mutex
	seq       int64
	recs      []Rec
	observers []Observer
	callSeq   int64
	nth       map[string]int

	// metadata store (the durable truth)
	cs      *model.ClusterStatus
	version int64
	stores  int

	faultLevel atomic.Int32 // 0..100: probability scale of injected faults
	crash      *CrashPoint
	CrashFired chan int

	inc      *Incarnation
	incCount int
	servers  map[string]model.Server

	// hooks for the engine
	AfterExec func(kind, node string, req any, res any, err error) // outside the lock, in the RPC goroutine
}

func Server(name string) model.Server { return model.Server{Public: name, Internal: name} }

func New(c *rc.Cluster, rf int, seed uint64) *Harness {
	h := &Harness{C: c, Namespace: rc.Namespace, Shard: c.Shard, RF: rf, Seed: seed, nth: map[string]int{},
		CrashFired: make(chan int, 16), servers: map[string]model.Server{}}
	for _, n := range c.Nodes {
		h.servers[n.Name] = Server(n.Name)
	}
	var ens []model.Server
	for i := 0; i < rf; i++ {
		ens = append(ens, Server(c.Nodes[i].Name))
	}
	h.cs = &model.ClusterStatus{Namespaces: map[string]model.NamespaceStatus{
		h.Namespace: {ReplicationFactor: uint32(rf), Shards: map[int64]model.ShardMetadata{
			h.Shard: {Status: model.ShardStatusUnknown, Term: -1, Ensemble: ens, Int32HashRange: model.Int32HashRange{Min: 0, Max: 0xffffffff}},
		}},
	}, ShardIdGenerator: 1}
	h.version = 0
	return h
}

func (h *Harness) Observe(o Observer) {
	h.mu.Lock()
	h.observers = append(h.observers, o)
	h.mu.Unlock()
}

func (h *Harness) SetFaultLevel(p int) { h.faultLevel.Store(int32(p)) }

// record appends under the lock and runs the observers.
func (h *Harness) recordLocked(r Rec, payload any) Rec {
	h.seq++
	r.Seq = h.seq
	h.recs = append(h.recs, r)
	for _, o := range h.observers {
		o(h, r, payload)
	}
	return r
}

func (h *Harness) Note(format string, a ...any) {
	h.mu.Lock()
	defer h.mu.Unlock()
	h.recordLocked(Rec{Phase: "note", Term: -1, Note: fmt.Sprintf(format, a...)}, nil)
}

func (h *Harness) Records() []Rec {
	h.mu.Lock()
	defer h.mu.Unlock()
	return append([]Rec{}, h.recs...)
}

func (h *Harness) Tail(n int) []string {
	h.mu.Lock()
	defer h.mu.Unlock()
	from := len(h.recs) - n
	if from < 0 {
		from = 0
	}
	var out []string
	for _, r := range h.recs[from:] {
		out = append(out, r.String())
	}
	return out
}

// Durable returns the shard metadata as the metadata store holds it now (call with the lock held by an observer, or not at all).
func (h *Harness) durableLocked() model.ShardMetadata {
	return h.cs.Namespaces[h.Namespace].Shards[h.Shard].Clone()
}

func (h *Harness) DurableLocked() model.ShardMetadata { return h.durableLocked() }

func (h *Harness) Durable() model.ShardMetadata {
	h.mu.Lock()
	defer h.mu.Unlock()
	return h.durableLocked()
}

// ---------- crash control ----------

// ArmCrash makes the current incarnation die at the given point.
func (h *Harness) ArmCrash(cp CrashPoint) {
	h.mu.Lock()
	h.crash = &cp
	h.mu.Unlock()
}

func (h *Harness) DisarmCrash() {
	h.mu.Lock()
	h.crash = nil
	h.mu.Unlock()
}

// crashHereLocked decides whether the incarnation dies at this point.
func (h *Harness) crashHereLocked(inc *Incarnation, phase, kind string, term int64) bool {
	if inc == nil || inc.Dead() || h.crash == nil || inc != h.inc {
		return false
	}
	if h.crash.Phase != phase || (h.crash.Kind != "" && h.crash.Kind != kind) {
		return false
	}
	h.crash.Count--
	if h.crash.Count > 0 {
		return false
	}
	h.crash = nil
	inc.dead.Store(true)
	h.recordLocked(Rec{Inc: inc.ID, Phase: "crash", Kind: kind, Term: term, Note: "coordinator dies at " + phase}, nil)
	select {
	case h.CrashFired <- inc.ID:
	default:
	}
	return true
}

// Kill makes the current incarnation die right now (between two of its steps).
func (h *Harness) Kill() {
	h.mu.Lock()
	inc := h.inc
	if inc != nil && !inc.Dead() {
		inc.dead.Store(true)
		h.recordLocked(Rec{Inc: inc.ID, Phase: "crash", Term: -1, Note: "coordinator killed"}, nil)
	}
	h.mu.Unlock()
}

// ---------- metadata provider ----------

type metaView struct {
	h   *Harness
	inc *Incarnation
}

func (m *metaView) Close() error { return nil }

func (m *metaView) Get() (*model.ClusterStatus, metadata.Version, error) {
	m.h.mu.Lock()
	defer m.h.mu.Unlock()
	return m.h.cs.Clone(), metadata.Version(strconv.FormatInt(m.h.version, 10)), nil
}

func (m *metaView) Store(cs *model.ClusterStatus, expected metadata.Version) (metadata.Version, error) {
	h := m.h
	h.mu.Lock()
	defer h.mu.Unlock()
	fake := metadata.Version(strconv.FormatInt(h.version+1000000, 10))
	if m.inc.Dead() {
		// a dead coordinator changes nothing; let its goroutines run out
		return fake, nil
	}
	sm := cs.Namespaces[h.Namespace].Shards[h.Shard]
	if h.crashHereLocked(m.inc, "store-before", "", sm.Term) {
		return fake, nil
	}
	if string(expected) != strconv.FormatInt(h.version, 10) {
		h.recordLocked(Rec{Inc: m.inc.ID, Phase: "store", Term: sm.Term, Err: "bad version"}, nil)
		return "", metadata.ErrMetadataBadVersion
	}
	// transient failure of the store
	if lvl := int(h.faultLevel.Load()); lvl > 0 {
		h.stores++
		if int(h.hash("store", "", int64(h.stores), 0)%1000) < lvl*2 {
			h.recordLocked(Rec{Inc: m.inc.ID, Phase: "store", Term: sm.Term, Err: "injected failure"}, nil)
			return "", errors.New("harness: metadata store unavailable")
		}
	}
	h.cs = cs.Clone()
	h.version++
	h.recordLocked(Rec{Inc: m.inc.ID, Phase: "store", Term: sm.Term, OK: true,
		Note: fmt.Sprintf("status=%v leader=%s ensemble=%v removed=%v", sm.Status, srvName(sm.Leader), Names(sm.Ensemble), Names(sm.RemovedNodes))}, sm)
	v := metadata.Version(strconv.FormatInt(h.version, 10))
	if h.crashHereLocked(m.inc, "store-after", "", sm.Term) {
		return v, nil
	}
	return v, nil
}

func srvName(s *model.Server) string {
	if s == nil {
		return "-"
	}
	return s.GetIdentifier()
}

func Names(l []model.Server) []string {
	out := []string{}
	for _, s := range l {
		out = append(out, s.GetIdentifier())
	}
	return out
}

// ---------- cluster config resource ----------

type cfgRes struct{ h *Harness }

func (c *cfgRes) Close() error { return nil }
func (c *cfgRes) Load() *model.ClusterConfig {
	var servers []model.Server
	for _, n := range c.h.C.Nodes {
		servers = append(servers, Server(n.Name))
	}
	return &model.ClusterConfig{Namespaces: []model.NamespaceConfig{{Name: c.h.Namespace, InitialShardCount: 1, ReplicationFactor: uint32(c.h.RF)}}, Servers: servers}
}
func (c *cfgRes) Nodes() *linkedhashset.Set[string] {
	s := linkedhashset.New[string]()
	for _, n := range c.h.C.Nodes {
		s.Add(n.Name)
	}
	return s
}
func (c *cfgRes) NodesWithMetadata() (*linkedhashset.Set[string], map[string]model.ServerMetadata) {
	return c.Nodes(), map[string]model.ServerMetadata{}
}
func (c *cfgRes) NamespaceConfig(ns string) (*model.NamespaceConfig, bool) {
	if ns != c.h.Namespace {
		return nil, false
	}
	return &model.NamespaceConfig{Name: ns, InitialShardCount: 1, ReplicationFactor: uint32(c.h.RF)}, true
}
func (c *cfgRes) Node(id string) (*model.Server, bool) {
	if c.h.C.Node(id) == nil {
		return nil, false
	}
	s := Server(id)
	return &s, true
}

type listener struct{ h *Harness }

func (l *listener) LeaderElected(shard int64, leader model.Server, followers []model.Server) {
	l.h.Note("listener: leader elected %s followers=%v", leader.GetIdentifier(), Names(followers))
}
func (l *listener) ShardDeleted(int64) {}

// ---------- incarnations ----------

// Start creates a new coordinator incarnation from what the metadata store holds.
func (h *Harness) Start() *Incarnation {
	h.mu.Lock()
	h.incCount++
	inc := &Incarnation{ID: h.incCount}
	h.inc = inc
	sm := h.durableLocked()
	h.recordLocked(Rec{Inc: inc.ID, Phase: "note", Term: sm.Term, Note: fmt.Sprintf("coordinator starts: status=%v leader=%s ensemble=%v removed=%v", sm.Status, srvName(sm.Leader), Names(sm.Ensemble), Names(sm.RemovedNodes))}, nil)
	h.mu.Unlock()
	inc.SR = resources.NewStatusResource(&metaView{h: h, inc: inc})
	nc, _ := (&cfgRes{h: h}).NamespaceConfig(h.Namespace)
	inc.SC = controllers.NewShardController(h.Namespace, h.Shard, nc, sm, &cfgRes{h: h}, inc.SR, &listener{h: h}, &rpcView{h: h, inc: inc})
	return inc
}

func (h *Harness) Current() *Incarnation {
	h.mu.Lock()
	defer h.mu.Unlock()
	return h.inc
}

// Abandon closes a (dead) incarnation in the background.
func (h *Harness) Abandon(inc *Incarnation) {
	inc.dead.Store(true)
	go func() { _ = inc.SC.Close() }()
}

// CloseAll ends every incarnation (end of a case).
func (h *Harness) CloseAll() {
	h.mu.Lock()
	inc := h.inc
	h.mu.Unlock()
	if inc != nil {
		inc.dead.Store(true)
		done := make(chan struct{})
		go func() { _ = inc.SC.Close(); close(done) }()
		select {
		case <-done:
		case <-time.After(5 * time.Second):
		}
	}
}

// ---------- coordination RPCs ----------

var errLost = status.Error(codes.Unavailable, "harness: message lost")

func (h *Harness) hash(kind, node string, a, b int64) uint64 {
	f := fnv.New64a()
	_, _ = fmt.Fprintf(f, "%d|%s|%s|%d|%d", h.Seed, kind, node, a, b)
	return f.Sum64()
}

// fateLocked draws what happens to the n-th request of this kind to this node.
func (h *Harness) fateLocked(kind, node string, term int64) Fate {
	k := kind + ">" + node
	h.nth[k]++
	x := h.hash(kind, node, term, int64(h.nth[k]))
	lvl := uint64(h.faultLevel.Load())
	var f Fate
	if lvl == 0 {
		return f
	}
	if x%1000 < lvl { // lvl=50 -> 5%
		f.DropReq = true
	}
	x /= 1000
	if x%1000 < lvl {
		f.DropResp = true
	}
	x /= 1000
	if x%100 < lvl {
		f.DelayReq = time.Duration(x/100%30) * time.Millisecond
	}
	x /= 3000
	if x%100 < lvl {
		f.DelayResp = time.Duration(x/100%30) * time.Millisecond
	}
	if kind == "GetStatus" {
		f.DelayReq /= 10
		f.DelayResp /= 10
	}
	return f
}

type rpcView struct {
	h   *Harness
	inc *Incarnation
}

func sleepCtx(ctx context.Context, d time.Duration) error {
	if d <= 0 {
		return ctx.Err()
	}
	t := time.NewTimer(d)
	defer t.Stop()
	select {
	case <-ctx.Done():
		return ctx.Err()
	case <-t.C:
		return nil
	}
}

func headStr(e *proto.EntryId) string {
	if e == nil {
		return ""
	}
	return fmt.Sprintf("(%d,%d)", e.Term, e.Offset)
}

// do runs one coordination request through the fault layer.
func (v *rpcView) do(ctx context.Context, kind string, node model.Server, term int64, req any, exec func(n *rc.Node) (any, *proto.EntryId, error)) (any, error) {
	h := v.h
	name := node.Internal
	h.mu.Lock()
	if v.inc.Dead() {
		h.mu.Unlock()
		return nil, errLost
	}
	h.callSeq++
	call := h.callSeq
	fate := h.fateLocked(kind, name, term)
	h.recordLocked(Rec{Inc: v.inc.ID, Phase: "send", Kind: kind, Node: name, Term: term, Call: call}, req)
	if h.crashHereLocked(v.inc, "send", kind, term) {
		h.mu.Unlock()
		return nil, errLost
	}
	h.mu.Unlock()
	if fate.DropReq {
		h.mu.Lock()
		h.recordLocked(Rec{Inc: v.inc.ID, Phase: "lost", Kind: kind, Node: name, Term: term, Call: call, Note: "request"}, nil)
		h.mu.Unlock()
		return nil, errLost
	}
	if err := sleepCtx(ctx, fate.DelayReq); err != nil {
		return nil, err
	}
	n := h.C.Node(name)
	if n == nil {
		return nil, status.Error(codes.Unavailable, "harness: unknown node "+name)
	}
	if kind == "DeleteShard" {
		// monitors that compare a node's state across time must know that it may be wiped from here on
		h.mu.Lock()
		h.recordLocked(Rec{Inc: v.inc.ID, Phase: "begin", Kind: kind, Node: name, Term: term, Call: call}, nil)
		h.mu.Unlock()
	}
	res, head, err := exec(n)
	h.mu.Lock()
	r := Rec{Inc: v.inc.ID, Phase: "exec", Kind: kind, Node: name, Term: term, OK: err == nil, Call: call, Head: headStr(head)}
	if err != nil {
		r.Err = err.Error()
	}
	h.recordLocked(r, res)
	died := h.crashHereLocked(v.inc, "exec", kind, term)
	h.mu.Unlock()
	if h.AfterExec != nil {
		h.AfterExec(kind, name, req, res, err)
	}
	if died {
		return nil, errLost
	}
	if cerr := sleepCtx(ctx, fate.DelayResp); cerr != nil {
		return nil, cerr
	}
	h.mu.Lock()
	defer h.mu.Unlock()
	if v.inc.Dead() {
		return nil, errLost
	}
	if fate.DropResp {
		h.recordLocked(Rec{Inc: v.inc.ID, Phase: "lost", Kind: kind, Node: name, Term: term, Call: call, Note: "response"}, nil)
		return nil, errLost
	}
	r.Phase = "recv"
	h.recordLocked(r, res)
	return res, err
}

func (v *rpcView) NewTerm(ctx context.Context, node model.Server, req *proto.NewTermRequest) (*proto.NewTermResponse, error) {
	res, err := v.do(ctx, "NewTerm", node, req.Term, req, func(n *rc.Node) (any, *proto.EntryId, error) {
		r, e := n.NewTerm(req)
		if e != nil {
			return nil, nil, e
		}
		return r, r.HeadEntryId, nil
	})
	if err != nil {
		return nil, err
	}
	return res.(*proto.NewTermResponse), nil
}

func (v *rpcView) BecomeLeader(ctx context.Context, node model.Server, req *proto.BecomeLeaderRequest) (*proto.BecomeLeaderResponse, error) {
	res, err := v.do(ctx, "BecomeLeader", node, req.Term, req, func(n *rc.Node) (any, *proto.EntryId, error) {
		// the real provider bounds every request by 30 s
		c2, cancel := context.WithTimeout(ctx, 30*time.Second)
		defer cancel()
		r, e := n.BecomeLeader(c2, req)
		if e != nil {
			return nil, nil, e
		}
		return r, nil, nil
	})
	if err != nil {
		return nil, err
	}
	return res.(*proto.BecomeLeaderResponse), nil
}

func (v *rpcView) AddFollower(ctx context.Context, node model.Server, req *proto.AddFollowerRequest) (*proto.AddFollowerResponse, error) {
	res, err := v.do(ctx, "AddFollower", node, req.Term, req, func(n *rc.Node) (any, *proto.EntryId, error) {
		r, e := n.AddFollower(req)
		if e != nil {
			return nil, nil, e
		}
		return r, req.FollowerHeadEntryId, nil
	})
	if err != nil {
		return nil, err
	}
	return res.(*proto.AddFollowerResponse), nil
}

func (v *rpcView) GetStatus(ctx context.Context, node model.Server, req *proto.GetStatusRequest) (*proto.GetStatusResponse, error) {
	res, err := v.do(ctx, "GetStatus", node, -1, req, func(n *rc.Node) (any, *proto.EntryId, error) {
		r, e := n.GetStatus()
		if e != nil {
			return nil, nil, e
		}
		return r, &proto.EntryId{Term: r.Term, Offset: r.HeadOffset}, nil
	})
	if err != nil {
		return nil, err
	}
	return res.(*proto.GetStatusResponse), nil
}

func (v *rpcView) DeleteShard(ctx context.Context, node model.Server, req *proto.DeleteShardRequest) (*proto.DeleteShardResponse, error) {
	res, err := v.do(ctx, "DeleteShard", node, req.Term, req, func(n *rc.Node) (any, *proto.EntryId, error) {
		r, e := n.DeleteShard(req)
		if e != nil {
			return nil, nil, e
		}
		return r, nil, nil
	})
	if err != nil {
		return nil, err
	}
	return res.(*proto.DeleteShardResponse), nil
}

func (v *rpcView) PushShardAssignments(context.Context, model.Server) (proto.OxiaCoordination_PushShardAssignmentsClient, error) {
	return nil, errors.New("harness: not used by the shard controller")
}
func (v *rpcView) GetHealthClient(model.Server) (grpc_health_v1.HealthClient, io.Closer, error) {
	return nil, nil, errors.New("harness: not used by the shard controller")
}
func (v *rpcView) ClearPooledConnections(model.Server) {}

// Ghost re-delivers an earlier request, exactly as it was sent, to the same node (a duplicate or a late arrival from
// a superseded election). The result is recorded as an "exec" of incarnation 0.
func (h *Harness) Ghost(kind, node string, req any) error {
	n := h.C.Node(node)
	if n == nil {
		return errors.New("no node")
	}
	var err error
	var term int64
	var head *proto.EntryId
	var res any
	switch q := req.(type) {
	case *proto.NewTermRequest:
		term = q.Term
		var r *proto.NewTermResponse
		r, err = n.NewTerm(q)
		if err == nil {
			head, res = r.HeadEntryId, r
		}
	case *proto.BecomeLeaderRequest:
		term = q.Term
		ctx, cancel := context.WithTimeout(context.Background(), 300*time.Millisecond)
		res, err = n.BecomeLeader(ctx, q)
		cancel()
	case *proto.AddFollowerRequest:
		term = q.Term
		res, err = n.AddFollower(q)
	case *proto.DeleteShardRequest:
		term = q.Term
		h.mu.Lock()
		h.recordLocked(Rec{Inc: 0, Phase: "begin", Kind: kind, Node: node, Term: term, Note: "ghost"}, nil)
		h.mu.Unlock()
		res, err = n.DeleteShard(q)
	default:
		return errors.New("unsupported ghost")
	}
	h.mu.Lock()
	r := Rec{Inc: 0, Phase: "exec", Kind: kind, Node: node, Term: term, OK: err == nil, Head: headStr(head), Note: "ghost"}
	if err != nil {
		r.Err = err.Error()
	}
	h.recordLocked(r, res)
	h.mu.Unlock()
	return err
}

// SentRequests returns the requests of the given kinds sent so far (for ghosts).
type Sent struct {
	Kind, Node string
	Term       int64
	Req        any
}

// ---------- helpers ----------

func SortedKeys[V any](m map[string]V) []string {
	var ks []string
	for k := range m {
		ks = append(ks, k)
	}
	sort.Strings(ks)
	return ks
}
