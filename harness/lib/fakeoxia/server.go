// Package fakeoxia is a gRPC server speaking the public OxiaClient service with deterministic, stateless answers
// (every answer is a function of the request alone), a log of everything it received, and per-shard fault/delay hooks.
// The real client library is pointed at it; the engine compares what the client's callers got with what this server
// answered.
package fakeoxia

import (
	"context"
	"fmt"
	"hash/fnv"
	"net"
	"sort"
	"strconv"
	"strings"
	"sync"
	"time"

	"google.golang.org/grpc"
	"google.golang.org/grpc/metadata"
	pb "google.golang.org/protobuf/proto"

	"github.com/oxia-db/oxia/common/hash"
	"github.com/oxia-db/oxia/proto"

	"verif/lib/refmodel"
)

type Range struct {
	ID       int64
	Min, Max uint32
}

type Server struct {
	proto.UnimplementedOxiaClientServer
	Addr string
	gs   *grpc.Server

	mu         sync.Mutex
	ranges     []Range
	assignGen  int
	assignCond *sync.Cond
	Universe   []string       // keys "stored" (for list / range-scan / comparison gets), any order
	PutSeen    map[string]int // put value (unique op id) -> times applied
	DelSeen    map[string]int
	ShardOfOp  map[string]int64 // op id / key -> shard id the request arrived on
	writeN     map[int64]int
	readN      map[int64]int
	// faults: return non-nil to fail the n-th (1-based) write request / read / list / scan on a shard before applying it
	WriteFault func(shard int64, n int) error
	ReadFault  func(shard int64, n int) error
	// WriteStall: the n-th write request on a shard is answered (normally, in order) only after this long
	WriteStall func(shard int64, n int) time.Duration
	// ReadFaultMid: like ReadFault, but consulted after the first chunk of the answer has been sent
	ReadFaultMid func(shard int64, n int) error
	ScanFault    func(shard int64, kind string) error
	Delay        func(shard int64) time.Duration
	ChunkSize    func() int
	// EmptyFirstChunk: the answer stream of a list / range-scan on that shard begins with a message without entries
	EmptyFirstChunk func(shard int64) bool
	Batches         []int // sizes of the write requests received
	ReadBatches     []int
}

func Vid(parts ...string) int64 {
	h := fnv.New64a()
	for _, p := range parts {
		h.Write([]byte(p))
		h.Write([]byte{0})
	}
	return int64(h.Sum64() >> 2)
}

func New() (*Server, error) {
	lis, err := net.Listen("tcp", "127.0.0.1:0")
	if err != nil {
		return nil, err
	}
	s := &Server{Addr: lis.Addr().String(), PutSeen: map[string]int{}, DelSeen: map[string]int{}, ShardOfOp: map[string]int64{},
		writeN: map[int64]int{}, readN: map[int64]int{}}
	s.assignCond = sync.NewCond(&s.mu)
	s.gs = grpc.NewServer()
	proto.RegisterOxiaClientServer(s.gs, s)
	go func() { _ = s.gs.Serve(lis) }()
	return s, nil
}

func (s *Server) Close() {
	s.mu.Lock()
	s.assignGen = -1
	s.assignCond.Broadcast()
	s.mu.Unlock()
	s.gs.Stop()
}

// SetRanges publishes a new assignment (all shards led by this server).
func (s *Server) SetRanges(r []Range) {
	s.mu.Lock()
	s.ranges = append([]Range{}, r...)
	s.assignGen++
	s.assignCond.Broadcast()
	s.mu.Unlock()
}

func (s *Server) Ranges() []Range {
	s.mu.Lock()
	defer s.mu.Unlock()
	return append([]Range{}, s.ranges...)
}

// Owner returns the shards whose range contains the key's hash.
func Owner(ranges []Range, key string) []int64 {
	h := hash.Xxh332(key)
	var out []int64
	for _, r := range ranges {
		if h >= r.Min && h <= r.Max {
			out = append(out, r.ID)
		}
	}
	return out
}

func (s *Server) keysOf(shard int64) []string {
	s.mu.Lock()
	defer s.mu.Unlock()
	var rg *Range
	for i := range s.ranges {
		if s.ranges[i].ID == shard {
			rg = &s.ranges[i]
		}
	}
	if rg == nil {
		return nil
	}
	var out []string
	for _, k := range s.Universe {
		if h := hash.Xxh332(k); h >= rg.Min && h <= rg.Max {
			out = append(out, k)
		}
	}
	sort.Slice(out, func(i, j int) bool { return refmodel.SlashCmp(out[i], out[j]) < 0 })
	return out
}

func (s *Server) GetShardAssignments(_ *proto.ShardAssignmentsRequest, stream proto.OxiaClient_GetShardAssignmentsServer) error {
	sent := 0
	for {
		s.mu.Lock()
		for s.assignGen == sent {
			s.assignCond.Wait()
		}
		if s.assignGen < 0 {
			s.mu.Unlock()
			return nil
		}
		sent = s.assignGen
		ns := &proto.NamespaceShardsAssignment{ShardKeyRouter: proto.ShardKeyRouter_XXHASH3}
		for _, r := range s.ranges {
			ns.Assignments = append(ns.Assignments, &proto.ShardAssignment{Shard: r.ID, Leader: s.Addr,
				ShardBoundaries: &proto.ShardAssignment_Int32HashRange{Int32HashRange: &proto.Int32HashRange{MinHashInclusive: r.Min, MaxHashInclusive: r.Max}}})
		}
		s.mu.Unlock()
		if err := stream.Send(&proto.ShardAssignments{Namespaces: map[string]*proto.NamespaceShardsAssignment{"default": ns}}); err != nil {
			return err
		}
		if stream.Context().Err() != nil {
			return nil
		}
	}
}

func (s *Server) delay(shard int64) {
	if s.Delay != nil {
		if d := s.Delay(shard); d > 0 {
			time.Sleep(d)
		}
	}
}

func (s *Server) apply(shard int64, req *proto.WriteRequest) *proto.WriteResponse {
	res := &proto.WriteResponse{}
	s.mu.Lock()
	s.Batches = append(s.Batches, len(req.Puts)+len(req.Deletes)+len(req.DeleteRanges))
	for _, p := range req.Puts {
		s.PutSeen[string(p.Value)]++
		s.ShardOfOp[string(p.Value)] = shard
		if strings.HasPrefix(p.Key, "rej/") {
			res.Puts = append(res.Puts, &proto.PutResponse{Status: proto.Status_UNEXPECTED_VERSION_ID})
		} else {
			res.Puts = append(res.Puts, &proto.PutResponse{Status: proto.Status_OK, Version: &proto.Version{VersionId: Vid(p.Key, string(p.Value))}})
		}
	}
	for _, d := range req.Deletes {
		s.DelSeen[d.Key]++
		if strings.HasPrefix(d.Key, "nf/") {
			res.Deletes = append(res.Deletes, &proto.DeleteResponse{Status: proto.Status_KEY_NOT_FOUND})
		} else {
			res.Deletes = append(res.Deletes, &proto.DeleteResponse{Status: proto.Status_OK})
		}
	}
	for range req.DeleteRanges {
		res.DeleteRanges = append(res.DeleteRanges, &proto.DeleteRangeResponse{Status: proto.Status_OK})
	}
	s.mu.Unlock()
	return res
}

func (s *Server) WriteStream(stream proto.OxiaClient_WriteStreamServer) error {
	md, _ := metadata.FromIncomingContext(stream.Context())
	shard := int64(-1)
	if v := md.Get("shard-id"); len(v) == 1 {
		shard, _ = strconv.ParseInt(v[0], 10, 64)
	}
	for {
		req, err := stream.Recv()
		if err != nil {
			return nil
		}
		if req.Shard != nil {
			shard = *req.Shard
		}
		s.mu.Lock()
		s.writeN[shard]++
		n := s.writeN[shard]
		f := s.WriteFault
		stall := s.WriteStall
		s.mu.Unlock()
		s.delay(shard)
		if stall != nil {
			if d := stall(shard, n); d > 0 {
				time.Sleep(d)
			}
		}
		if f != nil {
			if ferr := f(shard, n); ferr != nil {
				return ferr
			}
		}
		if err := stream.Send(s.apply(shard, req)); err != nil {
			return err
		}
	}
}

func (s *Server) Write(_ context.Context, req *proto.WriteRequest) (*proto.WriteResponse, error) {
	return s.apply(req.GetShard(), req), nil
}

func (s *Server) getOne(shard int64, g *proto.GetRequest) *proto.GetResponse {
	if g.ComparisonType == proto.KeyComparisonType_EQUAL {
		if strings.HasPrefix(g.Key, "nf/") {
			return &proto.GetResponse{Status: proto.Status_KEY_NOT_FOUND}
		}
		return &proto.GetResponse{Status: proto.Status_OK, Value: []byte("val:" + g.Key), Version: &proto.Version{VersionId: Vid(g.Key)}}
	}
	keys := s.keysOf(shard)
	best := ""
	found := false
	for _, k := range keys {
		c := refmodel.SlashCmp(k, g.Key)
		ok := false
		switch g.ComparisonType {
		case proto.KeyComparisonType_FLOOR:
			ok = c <= 0
		case proto.KeyComparisonType_LOWER:
			ok = c < 0
		case proto.KeyComparisonType_CEILING:
			ok = c >= 0
		case proto.KeyComparisonType_HIGHER:
			ok = c > 0
		}
		if !ok {
			continue
		}
		switch g.ComparisonType {
		case proto.KeyComparisonType_FLOOR, proto.KeyComparisonType_LOWER:
			best, found = k, true // keys ascend: the last one that qualifies
		default:
			if !found {
				best, found = k, true
			}
		}
	}
	if !found {
		return &proto.GetResponse{Status: proto.Status_KEY_NOT_FOUND}
	}
	return &proto.GetResponse{Status: proto.Status_OK, Key: pb.String(best), Value: []byte("val:" + best), Version: &proto.Version{VersionId: Vid(best)}}
}

func (s *Server) Read(req *proto.ReadRequest, stream proto.OxiaClient_ReadServer) error {
	shard := req.GetShard()
	s.mu.Lock()
	s.readN[shard]++
	n := s.readN[shard]
	f := s.ReadFault
	s.ReadBatches = append(s.ReadBatches, len(req.Gets))
	s.mu.Unlock()
	s.delay(shard)
	if f != nil {
		if err := f(shard, n); err != nil {
			return err
		}
	}
	// answer in chunks, in order
	chunk := 1 << 30
	if s.ChunkSize != nil {
		chunk = s.ChunkSize()
	}
	res := &proto.ReadResponse{}
	sentChunks := 0
	for _, g := range req.Gets {
		res.Gets = append(res.Gets, s.getOne(shard, g))
		if len(res.Gets) >= chunk {
			if err := stream.Send(res); err != nil {
				return err
			}
			sentChunks++
			res = &proto.ReadResponse{}
			// a failure in the middle of the answer: some chunks are out, the rest never comes
			if s.ReadFaultMid != nil && sentChunks == 1 {
				if err := s.ReadFaultMid(shard, n); err != nil {
					return err
				}
			}
		}
	}
	if len(res.Gets) > 0 {
		return stream.Send(res)
	}
	return nil
}

func (s *Server) inRange(shard int64, start, end string) []string {
	var out []string
	for _, k := range s.keysOf(shard) {
		if refmodel.SlashCmp(k, start) >= 0 && (end == "" || refmodel.SlashCmp(k, end) < 0) {
			out = append(out, k)
		}
	}
	return out
}

func (s *Server) List(req *proto.ListRequest, stream proto.OxiaClient_ListServer) error {
	shard := req.GetShard()
	s.delay(shard)
	keys := s.inRange(shard, req.StartInclusive, req.EndExclusive)
	chunk := 1 << 30
	if s.ChunkSize != nil {
		chunk = s.ChunkSize()
	}
	failAfter := -1
	if s.ScanFault != nil {
		if err := s.ScanFault(shard, "list"); err != nil {
			failAfter = len(keys) / 2
			defer func() {}()
			for i := 0; i < failAfter; i += chunk {
				j := min(i+chunk, failAfter)
				if e := stream.Send(&proto.ListResponse{Keys: keys[i:j]}); e != nil {
					return e
				}
			}
			return err
		}
	}
	if s.EmptyFirstChunk != nil && s.EmptyFirstChunk(shard) {
		if err := stream.Send(&proto.ListResponse{}); err != nil {
			return err
		}
	}
	for i := 0; i < len(keys); i += chunk {
		j := min(i+chunk, len(keys))
		if err := stream.Send(&proto.ListResponse{Keys: keys[i:j]}); err != nil {
			return err
		}
		s.delay(shard)
	}
	return nil
}

func (s *Server) RangeScan(req *proto.RangeScanRequest, stream proto.OxiaClient_RangeScanServer) error {
	shard := req.GetShard()
	s.delay(shard)
	keys := s.inRange(shard, req.StartInclusive, req.EndExclusive)
	chunk := 1 << 30
	if s.ChunkSize != nil {
		chunk = s.ChunkSize()
	}
	var ferr error
	if s.ScanFault != nil {
		if ferr = s.ScanFault(shard, "scan"); ferr != nil {
			keys = keys[:len(keys)/2]
		}
	}
	if s.EmptyFirstChunk != nil && s.EmptyFirstChunk(shard) {
		if err := stream.Send(&proto.RangeScanResponse{}); err != nil {
			return err
		}
	}
	for i := 0; i < len(keys); i += chunk {
		j := min(i+chunk, len(keys))
		res := &proto.RangeScanResponse{}
		for _, k := range keys[i:j] {
			res.Records = append(res.Records, &proto.GetResponse{Status: proto.Status_OK, Key: pb.String(k), Value: []byte("val:" + k), Version: &proto.Version{VersionId: Vid(k)}})
		}
		if err := stream.Send(res); err != nil {
			return err
		}
		s.delay(shard)
	}
	return ferr
}

func (s *Server) GetNotifications(_ *proto.NotificationsRequest, stream proto.OxiaClient_GetNotificationsServer) error {
	<-stream.Context().Done()
	return nil
}

func (s *Server) CreateSession(context.Context, *proto.CreateSessionRequest) (*proto.CreateSessionResponse, error) {
	return &proto.CreateSessionResponse{SessionId: 1}, nil
}
func (s *Server) KeepAlive(context.Context, *proto.SessionHeartbeat) (*proto.KeepAliveResponse, error) {
	return &proto.KeepAliveResponse{}, nil
}
func (s *Server) CloseSession(context.Context, *proto.CloseSessionRequest) (*proto.CloseSessionResponse, error) {
	return &proto.CloseSessionResponse{}, nil
}

// Snapshot returns copies of the logs.
func (s *Server) Snapshot() (puts map[string]int, dels map[string]int, shardOf map[string]int64, batches []int, readBatches []int) {
	s.mu.Lock()
	defer s.mu.Unlock()
	puts, dels, shardOf = map[string]int{}, map[string]int{}, map[string]int64{}
	for k, v := range s.PutSeen {
		puts[k] = v
	}
	for k, v := range s.DelSeen {
		dels[k] = v
	}
	for k, v := range s.ShardOfOp {
		shardOf[k] = v
	}
	return puts, dels, shardOf, append([]int{}, s.Batches...), append([]int{}, s.ReadBatches...)
}

// EvenRanges splits the hash space into n ranges with ids first, first+1, ...
func EvenRanges(first int64, n int) []Range {
	var out []Range
	size := uint64(1<<32) / uint64(n)
	for i := 0; i < n; i++ {
		lo := uint64(i) * size
		hi := lo + size - 1
		if i == n-1 {
			hi = 1<<32 - 1
		}
		out = append(out, Range{ID: first + int64(i), Min: uint32(lo), Max: uint32(hi)})
	}
	return out
}

var _ = fmt.Sprint
