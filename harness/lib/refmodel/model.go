// Package refmodel is a sequential reference model of one oxia shard's data model, written from the
// property statements and the proto comments (not from server/kv/db.go).
package refmodel

import (
	"fmt"
	"math/big"
	"sort"
	"strings"

	"github.com/oxia-db/oxia/proto"
)

// SlashCmp is an independent implementation of the hierarchical key order: keys are lists of
// '/'-separated spans; at each level a final span sorts before a non-final one, two final spans
// compare bytewise, two non-final spans compare bytewise and on equality the next level decides.
func SlashCmp(a, b string) int {
	as, bs := strings.Split(a, "/"), strings.Split(b, "/")
	for i := 0; ; i++ {
		aFinal, bFinal := i == len(as)-1, i == len(bs)-1
		switch {
		case aFinal && bFinal:
			return strings.Compare(as[i], bs[i])
		case aFinal:
			return -1
		case bFinal:
			return +1
		}
		if c := strings.Compare(as[i], bs[i]); c != 0 {
			return c
		}
	}
}

type Idx struct{ Name, Key string }

type Rec struct {
	Value          []byte
	VersionId      int64
	ModCount       int64
	Created        uint64
	Modified       uint64
	Session        *int64
	ClientIdentity *string
	PartitionKey   *string
	Indexes        []Idx
}

type Model struct {
	Recs     map[string]*Rec
	Version  int64 // last assigned version id, -1 initially
	Sessions map[int64]bool
}

func New() *Model {
	return &Model{Recs: map[string]*Rec{}, Version: -1, Sessions: map[int64]bool{}}
}

func (m *Model) Clone() *Model {
	c := New()
	c.Version = m.Version
	for k, v := range m.Recs {
		r := *v
		c.Recs[k] = &r
	}
	for k := range m.Sessions {
		c.Sessions[k] = true
	}
	return c
}

// SortedKeys returns the live keys in slash order.
func (m *Model) SortedKeys() []string {
	keys := make([]string, 0, len(m.Recs))
	for k := range m.Recs {
		keys = append(keys, k)
	}
	sort.Slice(keys, func(i, j int) bool { return SlashCmp(keys[i], keys[j]) < 0 })
	return keys
}

// Range returns live keys in [start, end) in slash order ("" end means unbounded).
func (m *Model) Range(start, end string) []string {
	var res []string
	for _, k := range m.SortedKeys() {
		if SlashCmp(k, start) >= 0 && (end == "" || SlashCmp(k, end) < 0) {
			res = append(res, k)
		}
	}
	return res
}

type PutExp struct {
	// Any: the property text does not fix the status (malformed request): any non-OK status, no effect.
	Any     bool
	Status  proto.Status
	Key     string // resulting key (differs from the request key for sequence puts)
	Version int64
	Mod     int64
	Created uint64
	SeqKey  bool
}

type DelExp struct{ Status proto.Status }

type NotifExp struct {
	Type     proto.NotificationType
	Version  int64
	RangeEnd string
}

type Exp struct {
	Puts    []PutExp
	Deletes []DelExp
	Ranges  int
	// Effects per user key of this request, in the shape the notification stream must describe.
	Created  map[string]int64 // key -> version id
	Modified map[string]int64
	Deleted  map[string]bool // deleted by a delete op
	RangeDel [][2]string     // delete ranges of the request, in order
	RangeHit map[string]bool // keys removed by a delete range
	// Either: keys created and then overwritten inside the same request (created or modified both describe them)
	Either map[string]bool
}

func checkVersion(r *Rec, expected *int64) bool {
	if expected == nil {
		return true
	}
	if r == nil {
		return *expected == -1
	}
	return r.VersionId == *expected
}

var maxU64 = new(big.Int).SetUint64(^uint64(0))

// seqParts returns the numeric suffixes of the highest existing key of the prefix, or ok=false when a key
// under the prefix is not of the generated shape (then the property does not say what happens).
func (m *Model) seqParts(prefix string, nDeltas int) (parts []*big.Int, wellFormed bool) {
	limit := fmt.Sprintf("%s-%020d", prefix, ^uint64(0))
	best := ""
	for k := range m.Recs {
		if SlashCmp(k, limit) < 0 && (best == "" || SlashCmp(k, best) > 0) {
			best = k
		}
	}
	if best == "" || !strings.HasPrefix(best, prefix) {
		return nil, true
	}
	rest := strings.TrimPrefix(best, prefix)
	if rest == "" {
		return nil, true // the prefix key itself exists: no suffixes
	}
	if !strings.HasPrefix(rest, "-") {
		return nil, false
	}
	for _, p := range strings.Split(rest[1:], "-") {
		if len(p) == 0 {
			return nil, false
		}
		for _, c := range p {
			if c < '0' || c > '9' {
				return nil, false
			}
		}
		v, _ := new(big.Int).SetString(p, 10)
		parts = append(parts, v)
	}
	if len(parts) > nDeltas {
		return parts, false
	}
	return parts, true
}

// SeqKeyOverflow reports whether computing the key needed a value above 2^64-1.
type ApplyInfo struct {
	SeqOverflow bool
	Malformed   bool
}

// Apply applies one write request: puts, then deletes, then delete ranges, each seeing the earlier ones.
//
// actual(i) returns the version id the real system assigned to put i (ok=false when it reported no
// success); the model adopts it (the property fixes only "strictly greater than every earlier one",
// which the caller checks), so that later conditional operations compare against the real id.
func (m *Model) Apply(req *proto.WriteRequest, ts uint64, actual func(i int) (int64, bool)) (Exp, ApplyInfo) {
	exp := Exp{Created: map[string]int64{}, Modified: map[string]int64{}, Deleted: map[string]bool{}, RangeHit: map[string]bool{}, Either: map[string]bool{}}
	var info ApplyInfo
	for pi, p := range req.Puts {
		key := p.Key
		seq := len(p.SequenceKeyDelta) > 0
		if seq {
			if p.PartitionKey == nil || p.SequenceKeyDelta[0] == 0 {
				exp.Puts = append(exp.Puts, PutExp{Any: true})
				info.Malformed = true
				continue
			}
			if p.ExpectedVersionId != nil {
				exp.Puts = append(exp.Puts, PutExp{Status: proto.Status_UNEXPECTED_VERSION_ID})
				continue
			}
			parts, ok := m.seqParts(p.Key, len(p.SequenceKeyDelta))
			if !ok {
				exp.Puts = append(exp.Puts, PutExp{Any: true})
				info.Malformed = true
				continue
			}
			for i, d := range p.SequenceKeyDelta {
				v := new(big.Int)
				if i < len(parts) {
					v.Set(parts[i])
				}
				v.Add(v, new(big.Int).SetUint64(d))
				if v.Cmp(maxU64) > 0 {
					info.SeqOverflow = true
				}
				key = fmt.Sprintf("%s-%020s", key, v.String())
			}
		}
		existing := m.Recs[key]
		if !seq && !checkVersion(existing, p.ExpectedVersionId) {
			exp.Puts = append(exp.Puts, PutExp{Status: proto.Status_UNEXPECTED_VERSION_ID})
			continue
		}
		if p.SessionId != nil && !m.Sessions[*p.SessionId] {
			exp.Puts = append(exp.Puts, PutExp{Status: proto.Status_SESSION_DOES_NOT_EXIST})
			continue
		}
		m.Version++
		if actual != nil {
			if v, ok := actual(pi); ok && v > m.Version {
				m.Version = v
			}
		}
		rec := &Rec{Value: p.Value, VersionId: m.Version, Created: ts, Modified: ts,
			Session: p.SessionId, ClientIdentity: p.ClientIdentity, PartitionKey: p.PartitionKey}
		for _, si := range p.SecondaryIndexes {
			rec.Indexes = append(rec.Indexes, Idx{si.IndexName, si.SecondaryKey})
		}
		if existing != nil {
			rec.ModCount = existing.ModCount + 1
			rec.Created = existing.Created
			delete(exp.Deleted, key)
			if _, c := exp.Created[key]; c {
				exp.Created[key] = rec.VersionId // created and modified within the same request
				exp.Either[key] = true
			} else {
				exp.Modified[key] = rec.VersionId
			}
		} else {
			exp.Created[key] = rec.VersionId
		}
		m.Recs[key] = rec
		exp.Puts = append(exp.Puts, PutExp{Status: proto.Status_OK, Key: key, Version: rec.VersionId, Mod: rec.ModCount, Created: rec.Created, SeqKey: seq})
	}
	for _, d := range req.Deletes {
		existing := m.Recs[d.Key]
		switch {
		case !checkVersion(existing, d.ExpectedVersionId):
			exp.Deletes = append(exp.Deletes, DelExp{proto.Status_UNEXPECTED_VERSION_ID})
		case existing == nil:
			exp.Deletes = append(exp.Deletes, DelExp{proto.Status_KEY_NOT_FOUND})
		default:
			delete(m.Recs, d.Key)
			delete(exp.Created, d.Key)
			delete(exp.Modified, d.Key)
			exp.Deleted[d.Key] = true
			exp.Deletes = append(exp.Deletes, DelExp{proto.Status_OK})
		}
	}
	for _, dr := range req.DeleteRanges {
		exp.Ranges++
		exp.RangeDel = append(exp.RangeDel, [2]string{dr.StartInclusive, dr.EndExclusive})
		for _, k := range m.Range(dr.StartInclusive, dr.EndExclusive) {
			delete(m.Recs, k)
			delete(exp.Created, k)
			delete(exp.Modified, k)
			exp.RangeHit[k] = true
		}
	}
	return exp, info
}

// CloseSession removes the session and exactly the records it owns.
func (m *Model) CloseSession(id int64) (removed []string) {
	for _, k := range m.SortedKeys() {
		if r := m.Recs[k]; r.Session != nil && *r.Session == id {
			delete(m.Recs, k)
			removed = append(removed, k)
		}
	}
	delete(m.Sessions, id)
	return removed
}

// IndexEntries returns the (secondary key, primary key) pairs of one index, sorted the way the engine
// lays them out: by secondary key, then by primary key (both in slash order of the composed key).
type IdxEntry struct{ Secondary, Primary string }

func (m *Model) IndexEntries(name string) []IdxEntry {
	var res []IdxEntry
	for k, r := range m.Recs {
		seen := map[string]bool{}
		for _, ix := range r.Indexes {
			if ix.Name == name && !seen[ix.Key] {
				seen[ix.Key] = true
				res = append(res, IdxEntry{ix.Key, k})
			}
		}
	}
	return res
}

func (m *Model) IndexNames() []string {
	set := map[string]bool{}
	for _, r := range m.Recs {
		for _, ix := range r.Indexes {
			set[ix.Name] = true
		}
	}
	var res []string
	for k := range set {
		res = append(res, k)
	}
	sort.Strings(res)
	return res
}
