package core

import (
	"bufio"
	"encoding/json"
	"fmt"
	"os"
	"os/exec"
	"path/filepath"
	"regexp"
	"runtime"
	"sort"
	"strconv"
	"strings"
	"sync"
	"syscall"
	"time"
)

// VerifDir is /verif (the directory holding MANIFEST.json); set by main from the executable path or env.
var VerifDir = "/verif"

type childLine struct {
	Start  *int    `json:"start,omitempty"`
	Result *Result `json:"result,omitempty"`
}

// ChildMain runs cases [from,to) of a part in this process, writing the protocol file.
func ChildMain(partName, tier string, seed uint64, from, to int, out string) int {
	p := GetPart(partName)
	if p == nil {
		fmt.Fprintln(os.Stderr, "unknown part", partName)
		return 3
	}
	f, err := os.OpenFile(out, os.O_CREATE|os.O_WRONLY|os.O_APPEND, 0o644)
	if err != nil {
		fmt.Fprintln(os.Stderr, err)
		return 3
	}
	defer f.Close()
	enc := json.NewEncoder(f)
	for i := from; i < to; i++ {
		idx := i
		_ = enc.Encode(childLine{Start: &idx})
		_ = f.Sync()
		fmt.Fprintf(os.Stderr, "=== case %s #%d seed=%d\n", partName, idx, seed)
		// per-case watchdog: a case that does not return within CaseTimeoutS is inconclusive; the goroutines it
		// leaves behind cannot be trusted, so the child exits and the driver restarts it at the next case
		perCase := p.CaseTimeoutS
		if perCase == 0 {
			perCase = 120
		}
		ch := make(chan Result, 1)
		go func() { ch <- p.Run(tier, seed, idx) }()
		var res Result
		hung := false
		select {
		case res = <-ch:
		case <-time.After(time.Duration(perCase) * time.Second):
			hung = true
			buf := make([]byte, 32<<20)
			buf = buf[:runtime.Stack(buf, true)]
			fmt.Fprintf(os.Stderr, "=== case watchdog fired after %d s; goroutines:\n%s\n", perCase, buf)
			res = Result{Verdict: Inconclusive, Detail: fmt.Sprintf("case watchdog fired after %d s (goroutine dump in the child's log)", perCase)}
		}
		res.Part = partName
		res.Case = idx
		_ = enc.Encode(childLine{Result: &res})
		_ = f.Sync()
		if hung {
			if i+1 < to {
				return ExitRestart
			}
			return 0
		}
		if res.RestartChild && i+1 < to {
			return ExitRestart
		}
	}
	return 0
}

// ExitRestart is the exit code of a child that wants to be restarted for the remaining cases.
const ExitRestart = 75

type job struct {
	part     *Part
	from, to int
}

type runState struct {
	tier    string
	seed    uint64
	workDir string
	selfBin string
	raceBin string
	mu      sync.Mutex
	results []Result
	raceLog []string
}

var fatalRe = regexp.MustCompile(`(?m)^(panic: .*|fatal error: .*|unexpected fault address.*|SIGSEGV.*|SIGBUS.*)$`)
var numRe = regexp.MustCompile(`0x[0-9a-fA-F]+|\d+`)

func normalizeFatal(log string) string {
	m := fatalRe.FindString(log)
	if m == "" {
		return "unknown"
	}
	m = numRe.ReplaceAllString(m, "N")
	if len(m) > 120 {
		m = m[:120]
	}
	m = strings.TrimSpace(m)
	// name the first frame of the system under test in the panicking goroutine, so that two different crashes with
	// the same runtime message (nil pointer dereference, ...) have different signatures
	if i := strings.Index(log, fatalRe.FindString(log)); i >= 0 {
		rest := log[i:]
		if j := strings.Index(rest, "\ngoroutine "); j >= 0 {
			rest = rest[j+1:]
			if k := strings.Index(rest, "\n\n"); k >= 0 {
				rest = rest[:k]
			}
			if f := fatalFrameRe.FindStringSubmatch(rest); f != nil {
				m += " in " + f[1]
			}
		}
	}
	return m
}

var fatalFrameRe = regexp.MustCompile(`(?m)^github\.com/oxia-db/oxia/([^\s(]+(?:\(\*[A-Za-z0-9_]+\))?[^\s(]*)\(`)

func (rs *runState) runJob(j job) {
	from := j.from
	attempt := 0
	for from < j.to {
		attempt++
		tag := fmt.Sprintf("%s-%d-%d-a%d", j.part.Name, from, j.to, attempt)
		out := filepath.Join(rs.workDir, tag+".jsonl")
		logPath := filepath.Join(rs.workDir, tag+".log")
		bin := rs.selfBin
		if j.part.Race {
			bin = rs.raceBin
		}
		perCase := j.part.CaseTimeoutS
		if perCase == 0 {
			perCase = 120
		}
		timeout := time.Duration(perCase*(j.to-from)+30) * time.Second
		cmd := exec.Command(bin, "child", "--part", j.part.Name, "--tier", rs.tier, "--seed", strconv.FormatUint(rs.seed, 10),
			"--from", strconv.Itoa(from), "--to", strconv.Itoa(j.to), "--out", out)
		lf, _ := os.Create(logPath)
		cmd.Stdout = lf
		cmd.Stderr = lf
		cmd.Env = append(os.Environ(),
			"GORACE=halt_on_error=0 log_path="+filepath.Join(rs.workDir, tag+".race"),
			"GOTRACEBACK=all",
			"TMPDIR="+rs.workDir,
		)
		cmd.SysProcAttr = &syscall.SysProcAttr{Setpgid: true}
		timedOut := false
		if err := cmd.Start(); err != nil {
			lf.Close()
			rs.add(Result{Part: j.part.Name, Case: from, Verdict: Inconclusive, Detail: "cannot start child: " + err.Error()})
			return
		}
		done := make(chan error, 1)
		go func() { done <- cmd.Wait() }()
		var werr error
		select {
		case werr = <-done:
		case <-time.After(timeout):
			timedOut = true
			_ = syscall.Kill(-cmd.Process.Pid, syscall.SIGQUIT)
			select {
			case werr = <-done:
			case <-time.After(10 * time.Second):
				_ = syscall.Kill(-cmd.Process.Pid, syscall.SIGKILL)
				werr = <-done
			}
		}
		lf.Close()
		// make sure no grandchildren survive
		_ = syscall.Kill(-cmd.Process.Pid, syscall.SIGKILL)

		// parse protocol file
		started := -1
		finished := map[int]bool{}
		if f, err := os.Open(out); err == nil {
			sc := bufio.NewScanner(f)
			sc.Buffer(make([]byte, 1<<20), 64<<20)
			for sc.Scan() {
				var cl childLine
				if json.Unmarshal(sc.Bytes(), &cl) != nil {
					continue
				}
				if cl.Start != nil {
					started = *cl.Start
				}
				if cl.Result != nil {
					finished[cl.Result.Case] = true
					rs.add(*cl.Result)
				}
			}
			f.Close()
		}
		if werr == nil && !timedOut {
			// all done
			for i := from; i < j.to; i++ {
				if !finished[i] {
					rs.add(Result{Part: j.part.Name, Case: i, Verdict: Inconclusive, Detail: "child exited without reporting the case"})
				}
			}
			rs.collectRace(tag)
			return
		}
		if ee, ok := werr.(*exec.ExitError); ok && ee.ExitCode() == ExitRestart && !timedOut {
			next := from
			for finished[next] && next < j.to {
				next++
			}
			rs.collectRace(tag)
			from = next
			continue
		}
		// child died or was killed: attribute to the case in flight
		culprit := started
		if culprit < from || finished[culprit] {
			culprit = from
			for finished[culprit] && culprit < j.to {
				culprit++
			}
		}
		logTail := tailFile(logPath, 256*1024)
		if culprit < j.to {
			if timedOut {
				rs.add(Result{Part: j.part.Name, Case: culprit, Verdict: Inconclusive,
					Detail: "watchdog fired (child killed after " + timeout.String() + "); log " + logPath})
			} else {
				norm := normalizeFatal(logTail)
				keep := filepath.Join(VerifDir, "replays", fmt.Sprintf("%s-fatal-seed%d-case%d.log", j.part.Name, rs.seed, culprit))
				_ = os.MkdirAll(filepath.Dir(keep), 0o755)
				_ = os.WriteFile(keep, []byte(logTail), 0o644)
				rs.add(Result{Part: j.part.Name, Case: culprit, Verdict: Violated,
					Sig:     j.part.Prop + "/process-fatal/" + norm,
					Detail:  fmt.Sprintf("child process died (%v) while running the case; log kept at %s", werr, keep),
					Witness: map[string]any{"log": keep}})
			}
		}
		rs.collectRace(tag)
		from = culprit + 1
		if attempt > 50 {
			for i := from; i < j.to; i++ {
				rs.add(Result{Part: j.part.Name, Case: i, Verdict: Inconclusive, Detail: "too many child restarts"})
			}
			return
		}
	}
}

func tailFile(path string, n int64) string {
	f, err := os.Open(path)
	if err != nil {
		return ""
	}
	defer f.Close()
	st, _ := f.Stat()
	// the interesting line (panic:) is usually near the start of the dump; read head of the tail region
	off := int64(0)
	if st.Size() > 8*n {
		off = st.Size() - 8*n
	}
	buf := make([]byte, st.Size()-off)
	_, _ = f.ReadAt(buf, off)
	s := string(buf)
	if i := fatalRe.FindStringIndex(s); i != nil {
		// keep some of what the child printed before it died
		s = s[max(0, i[0]-48*1024):]
	}
	if int64(len(s)) > n {
		s = s[:n]
	}
	return s
}

func (rs *runState) collectRace(tag string) {
	matches, _ := filepath.Glob(filepath.Join(rs.workDir, tag+".race.*"))
	for _, m := range matches {
		b, err := os.ReadFile(m)
		if err != nil {
			continue
		}
		blocks := strings.Split(string(b), "==================")
		for _, blk := range blocks {
			if !strings.Contains(blk, "WARNING: DATA RACE") {
				continue
			}
			rs.mu.Lock()
			rs.raceLog = append(rs.raceLog, blk)
			rs.mu.Unlock()
		}
	}
}

func (rs *runState) add(r Result) {
	rs.mu.Lock()
	rs.results = append(rs.results, r)
	rs.mu.Unlock()
}

var oxiaFrameRe = regexp.MustCompile(`(?m)^\s+((?:github\.com/oxia-db/oxia|verif)/\S+?)\(\)\s*$`)

// raceKey dedups a report by the outermost oxia frames of its two stacks.
func raceKey(blk string) string {
	secs := regexp.MustCompile(`(?m)^(Write at|Read at|Previous write at|Previous read at|Previous atomic|Atomic)`).Split(blk, -1)
	var keys []string
	for _, s := range secs[1:] {
		if i := strings.Index(s, "\n\n"); i > 0 {
			s = s[:i]
		}
		fr := oxiaFrameRe.FindAllStringSubmatch(s, -1)
		if len(fr) > 0 {
			// innermost oxia frame is more telling than outermost for naming; keep both
			keys = append(keys, fr[0][1])
		}
		if len(keys) == 2 {
			break
		}
	}
	sort.Strings(keys)
	return strings.Join(keys, " <-> ")
}

// RunProperty is the entry point of `vcheck run <prop>`.
func RunProperty(prop, tier string, seed uint64, selfBin string, buildRace func() (string, error)) int {
	start := time.Now()
	ps := PartsOf(prop)
	if len(ps) == 0 {
		fmt.Printf("no check registered for %s\n", prop)
		return 2
	}
	workDir, err := os.MkdirTemp("", "vcheck-"+prop+"-")
	if err != nil {
		fmt.Println(err)
		return 2
	}
	defer os.RemoveAll(workDir)
	rs := &runState{tier: tier, seed: seed, workDir: workDir, selfBin: selfBin}
	for _, p := range ps {
		if p.Race {
			rb, err := buildRace()
			if err != nil {
				fmt.Println("cannot build -race binary:", err)
				return 2
			}
			rs.raceBin = rb
			break
		}
	}

	// jobs
	var jobs []job
	expected := map[string]int{}
	for _, p := range ps {
		n := p.Cases(tier)
		expected[p.Name] = n
		if n == 0 {
			continue
		}
		per := p.MaxPerChild
		if per == 0 {
			per = (n + 31) / 32
			if per < 1 {
				per = 1
			}
		}
		for a := 0; a < n; a += per {
			b := a + per
			if b > n {
				b = n
			}
			jobs = append(jobs, job{part: p, from: a, to: b})
		}
	}
	workers := runtime.NumCPU()
	if v := os.Getenv("VERIF_WORKERS"); v != "" {
		if n, err := strconv.Atoi(v); err == nil && n > 0 {
			workers = n
		}
	}
	sem := make(chan struct{}, workers)
	var wg sync.WaitGroup
	for _, j := range jobs {
		w := j.part.Weight
		if w < 1 {
			w = 1
		}
		if w > workers {
			w = workers
		}
		for i := 0; i < w; i++ {
			sem <- struct{}{}
		}
		wg.Add(1)
		go func(j job, w int) {
			defer wg.Done()
			defer func() {
				for i := 0; i < w; i++ {
					<-sem
				}
			}()
			rs.runJob(j)
		}(j, w)
	}
	wg.Wait()

	return finish(prop, tier, seed, ps, rs, time.Since(start))
}
