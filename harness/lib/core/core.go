// Package core holds the verdict types, the case runner (child-process
// sharding), evidence writing and known-findings triage shared by all engines.
package core

import (
	"encoding/json"
	"fmt"
	"hash/fnv"
	"math/rand/v2"
	"sort"
	"strings"
	"sync"
)

const (
	Held         = "held"
	Violated     = "violated"
	Inconclusive = "inconclusive"
)

// Result is what one case of one part reports.
type Result struct {
	Part        string           `json:"part"`
	Case        int              `json:"case"`
	Verdict     string           `json:"verdict"`
	Sig         string           `json:"sig,omitempty"`    // stable signature of the violated clause
	Detail      string           `json:"detail,omitempty"` // human readable
	Fingerprint string           `json:"fp,omitempty"`     // what was observed, hashed by the driver for distinct counting
	Nontrivial  bool             `json:"nontrivial"`
	Sample      any              `json:"sample,omitempty"`
	Counters    map[string]int64 `json:"counters,omitempty"`
	Witness     any              `json:"witness,omitempty"`
	// Extra violations found in the same case (each with its own signature)
	More []Finding `json:"more,omitempty"`
	// RestartChild asks the child process to exit after this case (e.g. a runaway goroutine of the
	// system under test could not be stopped); the driver restarts a fresh child for the next case.
	RestartChild bool `json:"restart_child,omitempty"`
}

type Finding struct {
	Sig     string `json:"sig"`
	Detail  string `json:"detail,omitempty"`
	Witness any    `json:"witness,omitempty"`
}

// R is a convenience accumulator used inside a case.
type R struct {
	mu       sync.Mutex
	res      Result
	fp       []string
	findings []Finding
}

func NewR(part string, idx int) *R {
	return &R{res: Result{Part: part, Case: idx, Verdict: Held, Counters: map[string]int64{}}}
}

func (r *R) Count(name string, n int64) {
	r.mu.Lock()
	r.res.Counters[name] += n
	r.mu.Unlock()
}

func (r *R) Max(name string, n int64) {
	r.mu.Lock()
	if r.res.Counters[name] < n {
		r.res.Counters[name] = n
	}
	r.mu.Unlock()
}

func (r *R) Get(name string) int64 {
	r.mu.Lock()
	defer r.mu.Unlock()
	return r.res.Counters[name]
}

// FP adds a component to the fingerprint of what this case observed.
func (r *R) FP(parts ...any) {
	r.mu.Lock()
	r.fp = append(r.fp, fmt.Sprint(parts...))
	r.mu.Unlock()
}

func (r *R) Nontrivial() {
	r.mu.Lock()
	r.res.Nontrivial = true
	r.mu.Unlock()
}

func (r *R) Sample(s any) {
	r.mu.Lock()
	if r.res.Sample == nil {
		r.res.Sample = s
	}
	r.mu.Unlock()
}

// Violate records a violation of the clause `sig` (deduplicated per case).
func (r *R) Violate(sig, detail string, witness any) {
	r.mu.Lock()
	defer r.mu.Unlock()
	for _, f := range r.findings {
		if f.Sig == sig {
			return
		}
	}
	if len(detail) > 6000 {
		detail = detail[:6000] + "…"
	}
	r.findings = append(r.findings, Finding{Sig: sig, Detail: detail, Witness: witness})
}

// AttachWitness gives the first finding a witness if it has none yet.
func (r *R) AttachWitness(w any) {
	r.mu.Lock()
	defer r.mu.Unlock()
	if len(r.findings) > 0 && r.findings[0].Witness == nil {
		r.findings[0].Witness = w
	}
}

func (r *R) Violations() int {
	r.mu.Lock()
	defer r.mu.Unlock()
	return len(r.findings)
}

// RestartChild marks the process as tainted (see Result.RestartChild).
func (r *R) RestartChild() {
	r.mu.Lock()
	r.res.RestartChild = true
	r.mu.Unlock()
}

func (r *R) Inconclusive(reason string) {
	r.mu.Lock()
	if r.res.Verdict == Held {
		r.res.Verdict = Inconclusive
		r.res.Detail = reason
	}
	r.mu.Unlock()
}

func (r *R) Done() Result {
	r.mu.Lock()
	defer r.mu.Unlock()
	res := r.res
	// late goroutines of a case may still count: hand out a private copy
	res.Counters = make(map[string]int64, len(r.res.Counters))
	for k, v := range r.res.Counters {
		res.Counters[k] = v
	}
	if len(r.findings) > 0 {
		res.Verdict = Violated
		res.Sig = r.findings[0].Sig
		res.Detail = r.findings[0].Detail
		res.Witness = r.findings[0].Witness
		res.More = r.findings[1:]
	}
	res.Fingerprint = strings.Join(r.fp, "|")
	return res
}

// CaseSeed derives the per-case PRNG: one PCG stream per (seed, part, case).
func CaseSeed(seed uint64, part string, idx int) *rand.Rand {
	h := fnv.New64a()
	h.Write([]byte(part))
	return rand.New(rand.NewPCG(seed*0x9E3779B97F4A7C15+uint64(idx)+1, h.Sum64()^uint64(idx)*0xBF58476D1CE4E5B9))
}

// Part is one (engine, profile) pair serving a property.
type Part struct {
	Name  string // e.g. "C09.model"
	Prop  string
	Race  bool // run children from the -race binary
	Cases func(tier string) int
	// Run executes one case. It must be deterministic in (seed, idx) up to OS scheduling.
	Run func(tier string, seed uint64, idx int) Result
	// ProcsPerCase > 1 reduces parallelism for heavy cases.
	Weight int
	// Rule describes generation + non-triviality for the evidence file.
	Rule string
	// CaseTimeoutS is the watchdog per case (inconclusive when it fires). Default 120.
	CaseTimeoutS int
	// Serial: if true all cases of a child run in one process sequentially; else also sequential
	// but MaxPerChild bounds the batch size.
	MaxPerChild int
	// Floor: minimal number of non-inconclusive cases / nontrivial cases (quick, thorough)
	MinNontrivial func(tier string) int
	// RequiredCounters must be > 0 in the merged counters, else the run is broken (exit 2).
	RequiredCounters []string
}

var (
	partsMu sync.Mutex
	parts   = map[string]*Part{}
)

func Register(p *Part) {
	partsMu.Lock()
	defer partsMu.Unlock()
	if _, dup := parts[p.Name]; dup {
		panic("duplicate part " + p.Name)
	}
	parts[p.Name] = p
}

func GetPart(name string) *Part {
	partsMu.Lock()
	defer partsMu.Unlock()
	return parts[name]
}

func PartsOf(prop string) []*Part {
	partsMu.Lock()
	defer partsMu.Unlock()
	var res []*Part
	for _, p := range parts {
		if p.Prop == prop {
			res = append(res, p)
		}
	}
	sort.Slice(res, func(i, j int) bool { return res[i].Name < res[j].Name })
	return res
}

func AllProps() []string {
	partsMu.Lock()
	defer partsMu.Unlock()
	set := map[string]bool{}
	for _, p := range parts {
		set[p.Prop] = true
	}
	var res []string
	for k := range set {
		res = append(res, k)
	}
	sort.Strings(res)
	return res
}

func JSON(v any) string {
	b, _ := json.Marshal(v)
	return string(b)
}

func Hash(s string) string {
	h := fnv.New64a()
	h.Write([]byte(s))
	return fmt.Sprintf("%016x", h.Sum64())
}
