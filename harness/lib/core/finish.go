package core

import (
	"encoding/json"
	"fmt"
	"os"
	"path/filepath"
	"sort"
	"strings"
	"time"
)

type KnownFinding struct {
	Property    string `json:"property"`
	Signature   string `json:"signature"`
	Status      string `json:"status"` // known | fixed
	Commit      string `json:"commit,omitempty"`
	Description string `json:"description"`
	Witness     any    `json:"witness,omitempty"`
}

type KnownFile struct {
	Findings []KnownFinding `json:"findings"`
	Avoid    []struct {
		Property string `json:"property"`
		Because  string `json:"because"`
		What     string `json:"what"`
	} `json:"avoid,omitempty"`
}

func LoadKnown() KnownFile {
	var kf KnownFile
	b, err := os.ReadFile(filepath.Join(VerifDir, "known_findings.json"))
	if err != nil {
		return kf
	}
	_ = json.Unmarshal(b, &kf)
	return kf
}

type evidence struct {
	PropertyID  string         `json:"property_id"`
	Tier        string         `json:"tier"`
	Seed        int64          `json:"seed"`
	Level       string         `json:"level"`
	Coverage    map[string]any `json:"coverage"`
	Assumptions []string       `json:"assumptions,omitempty"`
	WallS       float64        `json:"wall_s"`
	Violations  int            `json:"violations"`
}

// PropMeta carries per-property evidence metadata (level, assumptions).
type PropMeta struct {
	Level       string
	Assumptions []string
}

var Meta = map[string]PropMeta{}

func finish(prop, tier string, seed uint64, ps []*Part, rs *runState, wall time.Duration) int {
	known := LoadKnown()
	knownSig := map[string]KnownFinding{}
	for _, k := range known.Findings {
		if k.Property == prop && k.Status == "known" {
			knownSig[k.Signature] = k
		}
	}

	sort.Slice(rs.results, func(i, j int) bool {
		if rs.results[i].Part != rs.results[j].Part {
			return rs.results[i].Part < rs.results[j].Part
		}
		return rs.results[i].Case < rs.results[j].Case
	})

	counters := map[string]int64{}
	perPart := map[string]map[string]int{}
	distinct := map[string]bool{}
	var samples []any
	samplePerPart := map[string]int{}
	inconclusive := 0
	var inconclusiveReasons []string
	type viol struct {
		sig, detail, part string
		caseIdx           int
		witness           any
	}
	var viols []viol
	for _, r := range rs.results {
		pp := perPart[r.Part]
		if pp == nil {
			pp = map[string]int{}
			perPart[r.Part] = pp
		}
		pp["cases"]++
		pp[r.Verdict]++
		for k, v := range r.Counters {
			if strings.HasPrefix(k, "max:") {
				if counters[k] < v {
					counters[k] = v
				}
			} else {
				counters[k] += v
			}
		}
		if r.Verdict == Inconclusive {
			inconclusive++
			if len(inconclusiveReasons) < 5 {
				inconclusiveReasons = append(inconclusiveReasons, fmt.Sprintf("%s#%d: %s", r.Part, r.Case, r.Detail))
			}
			continue
		}
		if r.Nontrivial {
			pp["nontrivial"]++
			distinct[r.Part+"/"+Hash(r.Fingerprint)] = true
		}
		if r.Sample != nil && samplePerPart[r.Part] < 2 {
			samplePerPart[r.Part]++
			samples = append(samples, map[string]any{"part": r.Part, "case": r.Case, "sample": r.Sample})
		}
		if r.Verdict == Violated {
			viols = append(viols, viol{r.Sig, r.Detail, r.Part, r.Case, r.Witness})
			for _, m := range r.More {
				viols = append(viols, viol{m.Sig, m.Detail, r.Part, r.Case, m.Witness})
			}
		}
	}

	// triage
	exit := 0
	printedKnown := map[string]int{}
	newViol := 0
	var lines []string
	replayDir := filepath.Join(VerifDir, "replays")
	reportedSig := map[string]int{}
	for _, v := range viols {
		if k, ok := knownSig[v.sig]; ok {
			printedKnown[v.sig]++
			if printedKnown[v.sig] == 1 {
				lines = append(lines, fmt.Sprintf("KNOWN-FINDING: property=%s %s %s", prop, v.sig, oneLine(k.Description)))
			}
			continue
		}
		newViol++
		reportedSig[v.sig]++
		if reportedSig[v.sig] > 3 {
			continue // do not flood; count is in the evidence
		}
		_ = os.MkdirAll(replayDir, 0o755)
		path := filepath.Join(replayDir, fmt.Sprintf("%s-seed%d-case%d-%s.json", v.part, seed, v.caseIdx, Hash(v.sig)[:8]))
		b, _ := json.MarshalIndent(map[string]any{
			"property": prop, "part": v.part, "tier": tier, "seed": seed, "case": v.caseIdx,
			"signature": v.sig, "detail": v.detail, "witness": v.witness,
		}, "", " ")
		_ = os.WriteFile(path, b, 0o644)
		lines = append(lines, fmt.Sprintf("VIOLATION property=%s replay=%s", prop, path))
		lines = append(lines, fmt.Sprintf("  signature=%s", v.sig))
		lines = append(lines, fmt.Sprintf("  detail=%s", oneLine(v.detail)))
		exit = 1
	}

	// floors
	broken := []string{}
	totalNontrivial := 0
	for _, p := range ps {
		pp := perPart[p.Name]
		n := p.Cases(tier)
		if n == 0 {
			continue
		}
		if pp == nil {
			broken = append(broken, p.Name+": no results")
			continue
		}
		totalNontrivial += pp["nontrivial"]
		if p.MinNontrivial != nil {
			if need := p.MinNontrivial(tier); pp["nontrivial"] < need {
				broken = append(broken, fmt.Sprintf("%s: only %d nontrivial cases (< floor %d; %d inconclusive)", p.Name, pp["nontrivial"], need, pp[Inconclusive]))
			}
		}
		for _, c := range p.RequiredCounters {
			if counters[c] == 0 {
				broken = append(broken, fmt.Sprintf("%s: required observation %q was never made", p.Name, c))
			}
		}
	}

	// race reports
	raceDistinct := map[string]int{}
	for _, blk := range rs.raceLog {
		raceDistinct[raceKey(blk)]++
	}
	var raceList []string
	for k, n := range raceDistinct {
		raceList = append(raceList, fmt.Sprintf("%s (x%d)", k, n))
	}
	sort.Strings(raceList)

	// evidence
	meta := Meta[prop]
	if meta.Level == "" {
		meta.Level = "exploration"
	}
	var rules []string
	for _, p := range ps {
		rules = append(rules, p.Name+": "+p.Rule)
	}
	if len(samples) == 0 {
		samples = append(samples, "no sample recorded")
	}
	partSummary := map[string]any{}
	for k, v := range perPart {
		partSummary[k] = v
	}
	knownHit := []string{}
	for s, n := range printedKnown {
		knownHit = append(knownHit, fmt.Sprintf("%s (x%d)", s, n))
	}
	sort.Strings(knownHit)
	cov := map[string]any{
		"evaluations":           len(rs.results),
		"distinct_nontrivial":   len(distinct),
		"rule":                  strings.Join(rules, " || "),
		"samples":               samples,
		"parts":                 partSummary,
		"observed":              counters,
		"inconclusive":          inconclusive,
		"inconclusive_reasons":  inconclusiveReasons,
		"race_reports":          len(rs.raceLog),
		"race_reports_distinct": raceList,
		"known_findings_hit":    knownHit,
		"new_violations":        newViol,
	}
	ev := evidence{PropertyID: prop, Tier: tier, Seed: int64(seed), Level: meta.Level, Coverage: cov,
		Assumptions: meta.Assumptions, WallS: wall.Seconds(), Violations: len(viols)}
	_ = os.MkdirAll(filepath.Join(VerifDir, "evidence"), 0o755)
	b, _ := json.MarshalIndent(ev, "", " ")
	_ = os.WriteFile(filepath.Join(VerifDir, "evidence", prop+".json"), b, 0o644)

	for _, l := range lines {
		fmt.Println(l)
	}
	fmt.Printf("%s tier=%s seed=%d cases=%d nontrivial_distinct=%d inconclusive=%d violations=%d (new %d, known %d) race_reports=%d wall=%.1fs\n",
		prop, tier, seed, len(rs.results), len(distinct), inconclusive, len(viols), newViol, len(viols)-newViol, len(rs.raceLog), wall.Seconds())
	keys := make([]string, 0, len(counters))
	for k := range counters {
		keys = append(keys, k)
	}
	sort.Strings(keys)
	var sb strings.Builder
	for _, k := range keys {
		fmt.Fprintf(&sb, " %s=%d", k, counters[k])
	}
	fmt.Println("observed:" + sb.String())
	if inconclusive > 0 {
		fmt.Println("inconclusive:", strings.Join(inconclusiveReasons, "; "))
	}
	if exit == 0 && len(broken) > 0 {
		for _, b := range broken {
			fmt.Println("BROKEN-CHECK:", b)
		}
		return 2
	}
	return exit
}

func oneLine(s string) string {
	s = strings.ReplaceAll(s, "\n", " ⏎ ")
	if len(s) > 600 {
		s = s[:600] + "…"
	}
	return s
}
