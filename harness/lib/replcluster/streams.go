// Package replcluster wires real LeaderController / FollowerController instances (through the real
// ShardsDirector) with in-memory replication streams the harness owns, the way server/mock_test.go does,
// so that monitors can observe and perturb every append, ack, fence and truncation.
package replcluster

import (
	"context"
	"errors"
	"io"
	"sync"
	"sync/atomic"
	"time"

	"google.golang.org/grpc/codes"
	"google.golang.org/grpc/metadata"
	"google.golang.org/grpc/status"

	"github.com/oxia-db/oxia/proto"
)

// Link is the directed connection leader -> follower; faults are applied on the receiving side.
type Link struct {
	mu      sync.Mutex
	stalled bool          // messages queue up but are not delivered
	delay   time.Duration // per delivered message
	gen     atomic.Int64  // bumped by Cut: streams of an older generation are broken
}

func (l *Link) SetStalled(v bool) {
	l.mu.Lock()
	l.stalled = v
	l.mu.Unlock()
}

func (l *Link) SetDelay(d time.Duration) {
	l.mu.Lock()
	l.delay = d
	l.mu.Unlock()
}

func (l *Link) state() (bool, time.Duration) {
	l.mu.Lock()
	defer l.mu.Unlock()
	return l.stalled, l.delay
}

// Cut breaks every stream currently open on the link (both ends see an error).
func (l *Link) Cut() { l.gen.Add(1) }

var errLinkCut = status.Error(codes.Unavailable, "harness: link cut")

// ReplStream is one Replicate call: the client half is handed to the leader's follower cursor, the server
// half to the follower controller.
type ReplStream struct {
	Leader, Follower string
	Term             int64
	ID               int64

	cluster *Cluster
	link    *Link
	linkGen int64

	clientCtx context.Context
	srvCtx    context.Context
	srvCancel context.CancelFunc

	toServer chan *proto.Append
	toClient chan *proto.Ack

	sendClosed  atomic.Bool
	handlerDone chan struct{}
	handlerErr  error
}

func (s *ReplStream) broken() bool { return s.link.gen.Load() != s.linkGen }

func (s *ReplStream) waitLink(ctx context.Context) error {
	for {
		if s.broken() {
			return errLinkCut
		}
		stalled, delay := s.link.state()
		if !stalled {
			if delay > 0 {
				time.Sleep(delay)
			}
			return nil
		}
		select {
		case <-ctx.Done():
			return ctx.Err()
		case <-time.After(200 * time.Microsecond):
		}
	}
}

// ---- client half ----

type replClient struct{ s *ReplStream }

func (c replClient) Send(a *proto.Append) error {
	s := c.s
	select {
	case <-s.handlerDone:
		return io.EOF
	case <-s.clientCtx.Done():
		return status.FromContextError(s.clientCtx.Err()).Err()
	default:
	}
	if s.broken() {
		return errLinkCut
	}
	if s.sendClosed.Load() {
		return errors.New("harness: send on closed stream")
	}
	s.cluster.onAppendSent(s, a)
	select {
	case s.toServer <- a:
		return nil
	case <-s.handlerDone:
		return io.EOF
	case <-s.clientCtx.Done():
		return status.FromContextError(s.clientCtx.Err()).Err()
	}
}

func (c replClient) Recv() (*proto.Ack, error) {
	s := c.s
	for {
		select {
		case a := <-s.toClient:
			if err := s.waitLink(s.clientCtx); err != nil {
				return nil, err
			}
			s.cluster.onAckDelivered(s, a)
			return a, nil
		default:
		}
		select {
		case a := <-s.toClient:
			if err := s.waitLink(s.clientCtx); err != nil {
				return nil, err
			}
			s.cluster.onAckDelivered(s, a)
			return a, nil
		case <-s.handlerDone:
			// drain what the server sent before it finished
			select {
			case a := <-s.toClient:
				s.cluster.onAckDelivered(s, a)
				return a, nil
			default:
			}
			if s.handlerErr != nil {
				return nil, s.handlerErr
			}
			return nil, io.EOF
		case <-s.clientCtx.Done():
			return nil, status.FromContextError(s.clientCtx.Err()).Err()
		case <-time.After(500 * time.Microsecond):
			if s.broken() {
				return nil, errLinkCut
			}
		}
	}
}

func (c replClient) CloseSend() error {
	c.s.sendClosed.Store(true)
	return nil
}
func (c replClient) Context() context.Context   { return c.s.clientCtx }
func (replClient) Header() (metadata.MD, error) { return metadata.MD{}, nil }
func (replClient) Trailer() metadata.MD         { return metadata.MD{} }
func (replClient) SendMsg(any) error            { return errors.New("not supported") }
func (replClient) RecvMsg(any) error            { return errors.New("not supported") }

// ---- server half ----

type replServer struct{ s *ReplStream }

func (c replServer) Recv() (*proto.Append, error) {
	s := c.s
	for {
		select {
		case a := <-s.toServer:
			if err := s.waitLink(s.srvCtx); err != nil {
				return nil, err
			}
			return a, nil
		case <-s.srvCtx.Done():
			return nil, status.Error(codes.Canceled, "context canceled")
		case <-time.After(500 * time.Microsecond):
			if s.broken() {
				return nil, errLinkCut
			}
			if s.sendClosed.Load() && len(s.toServer) == 0 {
				return nil, io.EOF
			}
		}
	}
}

func (c replServer) Send(a *proto.Ack) error {
	s := c.s
	if s.srvCtx.Err() != nil {
		return status.Error(codes.Canceled, "context canceled")
	}
	if s.broken() {
		return errLinkCut
	}
	// the monitors see the ack at the moment the follower hands it to the transport
	s.cluster.onAckSent(s, a)
	select {
	case s.toClient <- a:
		return nil
	case <-s.srvCtx.Done():
		return status.Error(codes.Canceled, "context canceled")
	}
}

func (c replServer) Context() context.Context   { return c.s.srvCtx }
func (replServer) SetHeader(metadata.MD) error  { return nil }
func (replServer) SendHeader(metadata.MD) error { return nil }
func (replServer) SetTrailer(metadata.MD)       {}
func (replServer) SendMsg(any) error            { return errors.New("not supported") }
func (replServer) RecvMsg(any) error            { return errors.New("not supported") }

// ---- snapshot stream ----

type snapStream struct {
	clientCtx context.Context
	srvCtx    context.Context
	srvCancel context.CancelFunc
	chunks    chan *proto.SnapshotChunk
	closed    atomic.Bool
	resp      chan *proto.SnapshotResponse
	done      chan struct{}
	err       error
	link      *Link
	linkGen   int64
	cluster   *Cluster
	follower  string
	term      int64
}

type snapClient struct{ s *snapStream }

func (c snapClient) Send(ch *proto.SnapshotChunk) error {
	if c.s.link.gen.Load() != c.s.linkGen {
		return errLinkCut
	}
	select {
	case c.s.chunks <- ch:
		return nil
	case <-c.s.done:
		return io.EOF
	case <-c.s.clientCtx.Done():
		return c.s.clientCtx.Err()
	}
}

func (c snapClient) CloseAndRecv() (*proto.SnapshotResponse, error) {
	c.s.closed.Store(true)
	select {
	case r := <-c.s.resp:
		return r, nil
	case <-c.s.done:
		select {
		case r := <-c.s.resp:
			return r, nil
		default:
		}
		if c.s.err != nil {
			return nil, c.s.err
		}
		return nil, io.EOF
	case <-c.s.clientCtx.Done():
		return nil, c.s.clientCtx.Err()
	}
}
func (c snapClient) CloseSend() error           { c.s.closed.Store(true); return nil }
func (c snapClient) Context() context.Context   { return c.s.clientCtx }
func (snapClient) Header() (metadata.MD, error) { return metadata.MD{}, nil }
func (snapClient) Trailer() metadata.MD         { return metadata.MD{} }
func (snapClient) SendMsg(any) error            { return errors.New("not supported") }
func (snapClient) RecvMsg(any) error            { return errors.New("not supported") }

type snapServer struct{ s *snapStream }

func (c snapServer) Recv() (*proto.SnapshotChunk, error) {
	for {
		select {
		case ch := <-c.s.chunks:
			return ch, nil
		case <-c.s.srvCtx.Done():
			return nil, status.Error(codes.Canceled, "context canceled")
		case <-time.After(500 * time.Microsecond):
			if c.s.link.gen.Load() != c.s.linkGen {
				return nil, errLinkCut
			}
			if c.s.closed.Load() && len(c.s.chunks) == 0 {
				return nil, io.EOF
			}
		}
	}
}

func (c snapServer) SendAndClose(r *proto.SnapshotResponse) error {
	if c.s.cluster != nil {
		// where replication is expected to continue from
		c.s.cluster.Log(Event{Kind: "snapshot-ack", Node: c.s.follower, Term: c.s.term, Offset: r.AckOffset})
	}
	select {
	case c.s.resp <- r:
		return nil
	default:
		return errors.New("harness: response already sent")
	}
}
func (c snapServer) Context() context.Context   { return c.s.srvCtx }
func (snapServer) SetHeader(metadata.MD) error  { return nil }
func (snapServer) SendHeader(metadata.MD) error { return nil }
func (snapServer) SetTrailer(metadata.MD)       {}
func (snapServer) SendMsg(any) error            { return errors.New("not supported") }
func (snapServer) RecvMsg(any) error            { return errors.New("not supported") }
