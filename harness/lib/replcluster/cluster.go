package replcluster

import (
	"context"
	"fmt"
	"os"
	"path/filepath"
	"sync"
	"sync/atomic"
	"time"

	"google.golang.org/grpc/status"

	"github.com/oxia-db/oxia/common/constant"
	oxtime "github.com/oxia-db/oxia/common/time"
	"github.com/oxia-db/oxia/proto"
	"github.com/oxia-db/oxia/server"
	"github.com/oxia-db/oxia/server/kv"
	"github.com/oxia-db/oxia/server/wal"

	"verif/lib/shard"
)

const Namespace = shard.Namespace

// Event is one observation of the harness, totally ordered by Seq.
type Event struct {
	Seq    int64  `json:"seq"`
	Kind   string `json:"kind"`
	Node   string `json:"node,omitempty"`
	Peer   string `json:"peer,omitempty"`
	Term   int64  `json:"term"`
	Offset int64  `json:"offset"`
	Aux    int64  `json:"aux,omitempty"`
	Note   string `json:"note,omitempty"`
}

// Monitor receives stream-level events synchronously (in the goroutine of the system under test).
type Monitor interface {
	OnAckSent(s *ReplStream, offset int64)
	OnAckDelivered(s *ReplStream, offset int64)
	OnAppendSent(s *ReplStream, a *proto.Append)
}

type Cluster struct {
	Dir      string
	Shard    int64
	Nodes    []*Node
	byName   map[string]*Node
	seq      atomic.Int64
	streamID atomic.Int64

	mu       sync.Mutex
	events   []Event
	monitors []Monitor
	links    map[string]*Link // "from>to"
	streams  []*ReplStream
	SegSize  int32
	Notif    bool
	// LastTruncate is the last Truncate request a leader sent to each follower (for re-delivery by the harness)
	LastTruncate map[string]*proto.TruncateRequest
}

func (c *Cluster) LastTruncateTo(follower string) *proto.TruncateRequest {
	c.mu.Lock()
	defer c.mu.Unlock()
	return c.LastTruncate[follower]
}

type Node struct {
	Name     string
	dir      string
	c        *Cluster
	KVF      *shard.KVFactory
	WalF     *shard.WalFactory
	Director server.ShardsDirector
	mu       sync.Mutex
	down     atomic.Bool
	// gate: requests whose answer promises something kept in the database (NewTerm, DeleteShard) hold it shared;
	// Crash takes it exclusively, so that no such answer is given between the crash image and the stop.
	gate sync.RWMutex
}

func New(dir string, n int, segSize int32, notifications bool) (*Cluster, error) {
	c := &Cluster{Dir: dir, Shard: 0, byName: map[string]*Node{}, links: map[string]*Link{}, SegSize: segSize, Notif: notifications}
	for i := 0; i < n; i++ {
		nd := &Node{Name: fmt.Sprintf("n%d", i), dir: filepath.Join(dir, fmt.Sprintf("n%d", i)), c: c}
		if err := nd.open(); err != nil {
			c.Close()
			return nil, err
		}
		c.Nodes = append(c.Nodes, nd)
		c.byName[nd.Name] = nd
	}
	return c, nil
}

func (c *Cluster) AddMonitor(m Monitor) {
	c.mu.Lock()
	c.monitors = append(c.monitors, m)
	c.mu.Unlock()
}

func (c *Cluster) Log(e Event) int64 {
	e.Seq = c.seq.Add(1)
	c.mu.Lock()
	c.events = append(c.events, e)
	c.mu.Unlock()
	return e.Seq
}

func (c *Cluster) Events() []Event {
	c.mu.Lock()
	defer c.mu.Unlock()
	return append([]Event{}, c.events...)
}

func (c *Cluster) Link(from, to string) *Link {
	c.mu.Lock()
	defer c.mu.Unlock()
	k := from + ">" + to
	l := c.links[k]
	if l == nil {
		l = &Link{}
		c.links[k] = l
	}
	return l
}

func (c *Cluster) Node(name string) *Node { return c.byName[name] }

func (c *Cluster) onAckSent(s *ReplStream, a *proto.Ack) {
	c.Log(Event{Kind: "ack-sent", Node: s.Follower, Peer: s.Leader, Term: s.Term, Offset: a.Offset, Aux: s.ID})
	c.mu.Lock()
	ms := c.monitors
	c.mu.Unlock()
	for _, m := range ms {
		m.OnAckSent(s, a.Offset)
	}
}

func (c *Cluster) onAckDelivered(s *ReplStream, a *proto.Ack) {
	c.Log(Event{Kind: "ack-delivered", Node: s.Leader, Peer: s.Follower, Term: s.Term, Offset: a.Offset, Aux: s.ID})
	c.mu.Lock()
	ms := c.monitors
	c.mu.Unlock()
	for _, m := range ms {
		m.OnAckDelivered(s, a.Offset)
	}
}

func (c *Cluster) onAppendSent(s *ReplStream, a *proto.Append) {
	c.mu.Lock()
	ms := c.monitors
	c.mu.Unlock()
	for _, m := range ms {
		m.OnAppendSent(s, a)
	}
}

func (c *Cluster) Close() {
	for _, n := range c.Nodes {
		n.Stop()
	}
}

// ---- node ----

func (n *Node) open() error {
	var err error
	if n.KVF, err = shard.NewKVFactory(filepath.Join(n.dir, "db")); err != nil {
		return err
	}
	n.WalF = shard.NewWalFactory(filepath.Join(n.dir, "wal"), n.c.SegSize)
	n.Director = server.NewShardsDirector(server.Config{NotificationsRetentionTime: time.Hour}, n.WalF, n.KVF, &provider{n: n})
	n.down.Store(false)
	return nil
}

// Stop closes the node gracefully (controllers, factories).
func (n *Node) Stop() {
	n.gate.Lock()
	defer n.gate.Unlock()
	n.stop()
}

func (n *Node) stop() {
	n.mu.Lock()
	defer n.mu.Unlock()
	if n.down.Load() {
		return
	}
	n.down.Store(true)
	// break every stream from/to this node first
	for _, other := range n.c.Nodes {
		n.c.Link(n.Name, other.Name).Cut()
		n.c.Link(other.Name, n.Name).Cut()
	}
	_ = n.Director.Close()
	_ = n.KVF.Close()
	_ = n.WalF.Close()
}

// Restart stops the node and opens it again on the same directories (a clean process restart).
func (n *Node) Restart() error {
	n.gate.Lock()
	defer n.gate.Unlock()
	n.stop()
	n.mu.Lock()
	defer n.mu.Unlock()
	return n.open()
}

// Wipe stops the node, removes its data and opens it empty.
func (n *Node) Wipe() error {
	n.gate.Lock()
	defer n.gate.Unlock()
	n.c.Log(Event{Kind: "wipe", Node: n.Name})
	n.stop()
	n.mu.Lock()
	defer n.mu.Unlock()
	_ = os.RemoveAll(n.dir)
	return n.open()
}

// Crash emulates a process crash: the database comes back as what it had flushed at this instant (Pebble runs
// without its own WAL), the log files stay as they are (mmap-ed, the page cache survives a process crash).
func (n *Node) Crash() error {
	n.gate.Lock()
	defer n.gate.Unlock()
	img := n.dir + ".img"
	_ = os.RemoveAll(img)
	have := false
	func() {
		defer func() { _ = recover() }()
		if k := n.KV(); k != nil {
			if cp, ok := k.(interface{ VerifCheckpoint(string) error }); ok && cp.VerifCheckpoint(img) == nil {
				have = true
			}
		}
	}()
	n.stop()
	n.mu.Lock()
	defer n.mu.Unlock()
	if have {
		dbDir := filepath.Join(n.dir, "db", Namespace, fmt.Sprintf("shard-%d", n.c.Shard))
		_ = os.RemoveAll(dbDir)
		if err := os.Rename(img, dbDir); err != nil {
			return err
		}
	}
	return n.open()
}

// FlushedTerm returns the term that the node's database would come back with after a process crash right now
// (ok=false when no image could be taken, e.g. the database is closed or absent).
func (n *Node) FlushedTerm() (term int64, ok bool) {
	n.gate.RLock()
	defer n.gate.RUnlock()
	if n.Down() {
		return 0, false
	}
	defer func() {
		if recover() != nil {
			ok = false
		}
	}()
	k := n.KV()
	if k == nil {
		return 0, false
	}
	cp, is := k.(interface{ VerifCheckpoint(string) error })
	if !is {
		return 0, false
	}
	img, err := os.MkdirTemp("", "term-img-")
	if err != nil {
		return 0, false
	}
	defer os.RemoveAll(img)
	if cp.VerifCheckpoint(filepath.Join(img, Namespace, fmt.Sprintf("shard-%d", n.c.Shard))) != nil {
		return 0, false
	}
	f, err := shard.NewKVFactory(img)
	if err != nil {
		return 0, false
	}
	defer f.Close()
	db, err := kv.NewDB(Namespace, n.c.Shard, f, time.Hour, oxtime.SystemClock)
	if err != nil {
		return 0, false
	}
	defer db.Close()
	t, _, err := db.ReadTerm()
	if err != nil {
		return 0, false
	}
	return t, true
}

func (n *Node) DeleteShard(req *proto.DeleteShardRequest) (*proto.DeleteShardResponse, error) {
	if n.Down() {
		return nil, errNodeDown
	}
	n.gate.RLock()
	defer n.gate.RUnlock()
	res, err := n.Director.DeleteShard(req)
	if err == nil {
		n.c.Log(Event{Kind: "delete-shard-ok", Node: n.Name, Term: req.Term})
	}
	return res, err
}

func (n *Node) Down() bool {
	return n.down.Load()
}

var errNodeDown = status.Error(constant.CodeNodeIsNotLeader, "harness: node is down")

// AppliedOffset reads the commit offset stored in the node's database (what it has applied), -1 if unknown.
func (n *Node) AppliedOffset() (res int64) {
	res = -1
	defer func() { _ = recover() }() // the database may be closed at this very moment
	k := n.KV()
	if k == nil {
		return res
	}
	_, v, closer, err := k.Get("__oxia/commit-offset", kv.ComparisonEqual)
	if err != nil {
		return res
	}
	defer closer.Close()
	se := &proto.StorageEntry{}
	if se.UnmarshalVT(v) != nil {
		return res
	}
	var x int64
	if _, err := fmt.Sscanf(string(se.Value), "%d", &x); err == nil {
		res = x
	}
	return res
}

func (n *Node) Wal() wal.Wal { return n.WalF.Wal(n.c.Shard) }
func (n *Node) KV() kv.KV    { return n.KVF.KV(n.c.Shard) }

// The methods below mirror server/internal_rpc_server.go.

func (n *Node) NewTerm(req *proto.NewTermRequest) (*proto.NewTermResponse, error) {
	if n.Down() {
		return nil, errNodeDown
	}
	n.gate.RLock()
	defer n.gate.RUnlock()
	if n.Down() {
		return nil, errNodeDown
	}
	n.c.Log(Event{Kind: "newterm-call", Node: n.Name, Term: req.Term})
	var res *proto.NewTermResponse
	var err error
	if follower, ferr := n.Director.GetFollower(req.Shard); ferr == nil {
		res, err = follower.NewTerm(req)
	} else if status.Code(ferr) != constant.CodeNodeIsNotFollower {
		return nil, ferr
	} else {
		leader, lerr := n.Director.GetOrCreateLeader(req.Namespace, req.Shard)
		if lerr != nil {
			return nil, lerr
		}
		res, err = leader.NewTerm(req)
	}
	if err == nil {
		n.c.Log(Event{Kind: "newterm-ok", Node: n.Name, Term: req.Term, Offset: res.HeadEntryId.Offset, Aux: res.HeadEntryId.Term})
	} else {
		n.c.Log(Event{Kind: "newterm-err", Node: n.Name, Term: req.Term, Note: err.Error()})
	}
	return res, err
}

func (n *Node) BecomeLeader(ctx context.Context, req *proto.BecomeLeaderRequest) (*proto.BecomeLeaderResponse, error) {
	if n.Down() {
		return nil, errNodeDown
	}
	leader, err := n.Director.GetOrCreateLeader(req.Namespace, req.Shard)
	if err != nil {
		return nil, err
	}
	res, err := leader.BecomeLeader(ctx, req)
	if err == nil {
		n.c.Log(Event{Kind: "become-leader-ok", Node: n.Name, Term: req.Term})
	} else {
		n.c.Log(Event{Kind: "become-leader-err", Node: n.Name, Term: req.Term, Note: err.Error()})
	}
	return res, err
}

func (n *Node) AddFollower(req *proto.AddFollowerRequest) (*proto.AddFollowerResponse, error) {
	if n.Down() {
		return nil, errNodeDown
	}
	leader, err := n.Director.GetLeader(req.Shard)
	if err != nil {
		return nil, err
	}
	return leader.AddFollower(req)
}

func (n *Node) Truncate(req *proto.TruncateRequest) (*proto.TruncateResponse, error) {
	if n.Down() {
		return nil, errNodeDown
	}
	follower, err := n.Director.GetOrCreateFollower(req.Namespace, req.Shard, req.Term)
	if err != nil {
		return nil, err
	}
	// (read after the controller exists: on a node that has just restarted the database is opened by it)
	appliedBefore := n.AppliedOffset()
	res, err := follower.Truncate(req)
	if err == nil {
		if res.HeadEntryId.Offset < appliedBefore {
			// entries this node had already applied to its database were cut off its log
			n.c.Log(Event{Kind: "truncate-below-applied", Node: n.Name, Term: req.Term, Offset: res.HeadEntryId.Offset, Aux: appliedBefore})
		}
		n.c.Log(Event{Kind: "truncate-ok", Node: n.Name, Term: req.Term, Offset: res.HeadEntryId.Offset})
	} else {
		n.c.Log(Event{Kind: "truncate-err", Node: n.Name, Term: req.Term, Note: err.Error()})
	}
	return res, err
}

func (n *Node) GetStatus() (*proto.GetStatusResponse, error) {
	if n.Down() {
		return nil, errNodeDown
	}
	req := &proto.GetStatusRequest{Shard: n.c.Shard}
	if follower, err := n.Director.GetFollower(n.c.Shard); err == nil {
		return follower.GetStatus(req)
	}
	leader, err := n.Director.GetLeader(n.c.Shard)
	if err != nil {
		return nil, err
	}
	return leader.GetStatus(req)
}

func (n *Node) Leader() (server.LeaderController, error) {
	if n.Down() {
		return nil, errNodeDown
	}
	return n.Director.GetLeader(n.c.Shard)
}

// ---- provider handed to the node's controllers ----

type provider struct{ n *Node }

func (p *provider) Close() error { return nil }

func (p *provider) GetReplicateStream(ctx context.Context, follower string, namespace string, shardId int64, term int64) (proto.OxiaLogReplication_ReplicateClient, error) {
	c := p.n.c
	target := c.Node(follower)
	if target == nil || target.Down() || p.n.Down() {
		return nil, status.Error(14, "harness: peer unreachable")
	}
	link := c.Link(p.n.Name, follower)
	s := &ReplStream{Leader: p.n.Name, Follower: follower, Term: term, ID: c.streamID.Add(1), cluster: c, link: link, linkGen: link.gen.Load(),
		clientCtx: ctx, toServer: make(chan *proto.Append, 4096), toClient: make(chan *proto.Ack, 65536), handlerDone: make(chan struct{})}
	s.srvCtx, s.srvCancel = context.WithCancel(context.Background())
	c.mu.Lock()
	c.streams = append(c.streams, s)
	c.mu.Unlock()
	c.Log(Event{Kind: "stream-open", Node: follower, Peer: p.n.Name, Term: term, Aux: s.ID})
	go func() {
		// the client going away ends the server side, like a gRPC transport does
		select {
		case <-ctx.Done():
			s.srvCancel()
		case <-s.handlerDone:
		}
	}()
	go func() {
		var err error
		fc, ferr := target.Director.GetOrCreateFollower(namespace, shardId, term)
		if ferr != nil {
			err = ferr
		} else {
			err = fc.Replicate(replServer{s})
		}
		s.handlerErr = err
		c.Log(Event{Kind: "stream-closed", Node: follower, Peer: p.n.Name, Term: term, Aux: s.ID, Note: fmt.Sprint(err)})
		close(s.handlerDone)
		s.srvCancel()
	}()
	return replClient{s}, nil
}

func (p *provider) SendSnapshot(ctx context.Context, follower string, namespace string, shardId int64, term int64) (proto.OxiaLogReplication_SendSnapshotClient, error) {
	c := p.n.c
	target := c.Node(follower)
	if target == nil || target.Down() || p.n.Down() {
		return nil, status.Error(14, "harness: peer unreachable")
	}
	link := c.Link(p.n.Name, follower)
	s := &snapStream{cluster: c, follower: follower, term: term, clientCtx: ctx, chunks: make(chan *proto.SnapshotChunk, 64), resp: make(chan *proto.SnapshotResponse, 1), done: make(chan struct{}),
		link: link, linkGen: link.gen.Load()}
	s.srvCtx, s.srvCancel = context.WithCancel(context.Background())
	c.Log(Event{Kind: "snapshot-open", Node: follower, Peer: p.n.Name, Term: term})
	go func() {
		select {
		case <-ctx.Done():
			s.srvCancel()
		case <-s.done:
		}
	}()
	go func() {
		fc, err := target.Director.GetOrCreateFollower(namespace, shardId, term)
		if err == nil {
			err = fc.SendSnapshot(snapServer{s})
		}
		s.err = err
		c.Log(Event{Kind: "snapshot-closed", Node: follower, Peer: p.n.Name, Term: term, Note: fmt.Sprint(err)})
		close(s.done)
		s.srvCancel()
	}()
	return snapClient{s}, nil
}

func (p *provider) Truncate(follower string, req *proto.TruncateRequest) (*proto.TruncateResponse, error) {
	target := p.n.c.Node(follower)
	if target == nil || target.Down() {
		return nil, status.Error(14, "harness: peer unreachable")
	}
	p.n.c.mu.Lock()
	if p.n.c.LastTruncate == nil {
		p.n.c.LastTruncate = map[string]*proto.TruncateRequest{}
	}
	p.n.c.LastTruncate[follower] = req.CloneVT()
	p.n.c.mu.Unlock()
	return target.Truncate(req)
}

// ---- elections driven by the harness (the coordinator's role) ----

type Head struct {
	Term, Offset int64
}

// Fence sends NewTerm(term) to the given nodes in order and returns the heads of those that answered OK.
func (c *Cluster) Fence(term int64, nodes []*Node) map[string]Head {
	heads := map[string]Head{}
	for _, n := range nodes {
		res, err := n.NewTerm(&proto.NewTermRequest{Namespace: Namespace, Shard: c.Shard, Term: term,
			Options: &proto.NewTermOptions{EnableNotifications: c.Notif}})
		if err == nil {
			heads[n.Name] = Head{res.HeadEntryId.Term, res.HeadEntryId.Offset}
		}
	}
	return heads
}

// PickLeader returns the names with a maximal (term, offset) head.
func PickLeader(heads map[string]Head) []string {
	var best []string
	var bh Head
	first := true
	for n, h := range heads {
		switch {
		case first || h.Term > bh.Term || (h.Term == bh.Term && h.Offset > bh.Offset):
			best, bh, first = []string{n}, h, false
		case h == bh:
			best = append(best, n)
		}
	}
	return best
}

// Install makes `leader` the leader of `term` with the other fenced responders as followers.
func (c *Cluster) Install(term int64, leader string, rf int, heads map[string]Head) error {
	fm := map[string]*proto.EntryId{}
	for n, h := range heads {
		if n != leader {
			fm[n] = &proto.EntryId{Term: h.Term, Offset: h.Offset}
		}
	}
	ctx, cancel := context.WithTimeout(context.Background(), 30*time.Second)
	defer cancel()
	_, err := c.Node(leader).BecomeLeader(ctx, &proto.BecomeLeaderRequest{Namespace: Namespace, Shard: c.Shard, Term: term,
		ReplicationFactor: uint32(rf), FollowerMaps: fm})
	return err
}

// Rejoin fences a straggler in the current term and attaches it to the leader.
func (c *Cluster) Rejoin(term int64, leader string, n *Node) error {
	_, err := c.RejoinHead(term, leader, n)
	return err
}

// RejoinHead is Rejoin that also returns the head the node reported when it was fenced.
func (c *Cluster) RejoinHead(term int64, leader string, n *Node) (Head, error) {
	res, err := n.NewTerm(&proto.NewTermRequest{Namespace: Namespace, Shard: c.Shard, Term: term,
		Options: &proto.NewTermOptions{EnableNotifications: c.Notif}})
	if err != nil {
		return Head{}, err
	}
	_, err = c.Node(leader).AddFollower(&proto.AddFollowerRequest{Namespace: Namespace, Shard: c.Shard, Term: term,
		FollowerName: n.Name, FollowerHeadEntryId: res.HeadEntryId})
	return Head{Term: res.HeadEntryId.Term, Offset: res.HeadEntryId.Offset}, err
}
