package main

import (
	"encoding/json"
	"flag"
	"fmt"
	"io"
	"log/slog"
	"os"
	"os/exec"
	"path/filepath"
	"strconv"

	"verif/lib/core"

	_ "verif/engines"
)

func usage() {
	fmt.Fprintln(os.Stderr, `usage:
  vcheck run <PROP> [--tier quick|thorough] [--seed N]
  vcheck replay <path>
  vcheck list
  vcheck child --part P --tier T --seed S --from A --to B --out FILE   (internal)`)
	os.Exit(2)
}

func envSeed() uint64 {
	if v := os.Getenv("VERIF_SEED"); v != "" {
		if n, err := strconv.ParseUint(v, 10, 64); err == nil {
			return n
		}
	}
	return 1
}

func envTier(def string) string {
	if v := os.Getenv("VERIF_TIER"); v == "quick" || v == "thorough" {
		return v
	}
	return def
}

func buildRace() (string, error) {
	goBin := os.Getenv("VERIF_GO")
	if goBin == "" {
		goBin = "go"
	}
	out := filepath.Join(core.VerifDir, "build", "vcheck-race")
	cmd := exec.Command(goBin, "build", "-race", "-tags", "verif", "-o", out, "./cmd/vcheck")
	cmd.Dir = filepath.Join(core.VerifDir, "harness")
	cmd.Stdout = os.Stderr
	cmd.Stderr = os.Stderr
	if err := cmd.Run(); err != nil {
		return "", err
	}
	return out, nil
}

func main() {
	if d := os.Getenv("VERIF_DIR"); d != "" {
		core.VerifDir = d
	}
	if len(os.Args) < 2 {
		usage()
	}
	self, _ := os.Executable()
	switch os.Args[1] {
	case "list":
		for _, p := range core.AllProps() {
			for _, part := range core.PartsOf(p) {
				fmt.Printf("%s %s quick=%d thorough=%d race=%v\n", p, part.Name, part.Cases("quick"), part.Cases("thorough"), part.Race)
			}
		}
	case "run":
		fs := flag.NewFlagSet("run", flag.ExitOnError)
		tier := fs.String("tier", envTier("quick"), "")
		seed := fs.Uint64("seed", envSeed(), "")
		if len(os.Args) < 3 {
			usage()
		}
		_ = fs.Parse(os.Args[3:])
		os.Exit(core.RunProperty(os.Args[2], *tier, *seed, self, buildRace))
	case "child":
		if os.Getenv("VERIF_LOG") == "" {
			// the system under test logs through the default slog logger; keep child logs small
			slog.SetDefault(slog.New(slog.NewTextHandler(io.Discard, &slog.HandlerOptions{Level: slog.Level(100)})))
		}
		fs := flag.NewFlagSet("child", flag.ExitOnError)
		part := fs.String("part", "", "")
		tier := fs.String("tier", "quick", "")
		seed := fs.Uint64("seed", 1, "")
		from := fs.Int("from", 0, "")
		to := fs.Int("to", 0, "")
		out := fs.String("out", "", "")
		_ = fs.Parse(os.Args[2:])
		os.Exit(core.ChildMain(*part, *tier, *seed, *from, *to, *out))
	case "replay":
		if len(os.Args) < 3 {
			usage()
		}
		b, err := os.ReadFile(os.Args[2])
		if err != nil {
			fmt.Println(err)
			os.Exit(2)
		}
		var w struct {
			Property  string `json:"property"`
			Part      string `json:"part"`
			Tier      string `json:"tier"`
			Seed      uint64 `json:"seed"`
			Case      int    `json:"case"`
			Signature string `json:"signature"`
		}
		if err := json.Unmarshal(b, &w); err != nil {
			fmt.Println(err)
			os.Exit(2)
		}
		p := core.GetPart(w.Part)
		if p == nil {
			fmt.Println("unknown part", w.Part)
			os.Exit(2)
		}
		res := p.Run(w.Tier, w.Seed, w.Case)
		fmt.Println(core.JSON(res))
		if res.Verdict == core.Violated {
			fmt.Printf("VIOLATION property=%s replay=%s\n", w.Property, os.Args[2])
			os.Exit(1)
		}
		fmt.Println("replay did not reproduce: verdict", res.Verdict)
	default:
		usage()
	}
}
