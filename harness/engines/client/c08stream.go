package client

import (
	"context"
	"fmt"
	"os"
	"sync"
	"time"

	"google.golang.org/grpc"
	"google.golang.org/grpc/credentials/insecure"
	"google.golang.org/grpc/metadata"
	pb "google.golang.org/protobuf/proto"

	"github.com/oxia-db/oxia/proto"
	"github.com/oxia-db/oxia/server"

	"verif/lib/core"
)

// C08 at the public RPC boundary: the write stream matches responses to requests by position only, so the server
// must answer the requests of one stream in the order it received them, whatever is in flight.

func init() {
	core.Register(&core.Part{
		Name: "C08.stream", Prop: "C08", Race: true,
		Cases: func(tier string) int { return tierN(tier, 20, 400) },
		Run:   runC08Stream,
		Rule: "a real standalone server (public RPC server, leader controller, WAL, Pebble) on loopback gRPC; 1..4 raw WriteStream clients pipeline 30..150 requests each without waiting for answers; every request is built so that its answer is recognisable: a put on a fresh key that must succeed, a conditional put on a fresh key with an impossible expected version (UNEXPECTED_VERSION_ID), a delete of a key that does not exist (KEY_NOT_FOUND), or a request with two puts; " +
			"oracle: the i-th answer on a stream has the shape that belongs to the i-th request of that stream, successful puts carry strictly increasing version ids along a stream, and at the end every successfully put key holds the value of its own request; " +
			"non-trivial = >= 2 streams with >= 50 requests in flight; distinct = (streams, request pattern)",
		MinNontrivial:    func(tier string) int { return tierN(tier, 6, 120) },
		RequiredCounters: []string{"requests_pipelined", "responses_checked", "streams"},
		CaseTimeoutS:     120,
	})
}

func runC08Stream(tier string, seed uint64, idx int) core.Result {
	r := core.NewR("C08.stream", idx)
	rng := core.CaseSeed(seed, "C08.stream", idx)
	dir, err := os.MkdirTemp("", "c08s-")
	if err != nil {
		r.Inconclusive(err.Error())
		return r.Done()
	}
	defer os.RemoveAll(dir)
	srv, err := server.NewStandalone(server.NewTestConfig(dir))
	if err != nil {
		r.Inconclusive("standalone: " + err.Error())
		return r.Done()
	}
	defer srv.Close()
	conn, err := grpc.NewClient(fmt.Sprintf("localhost:%d", srv.RpcPort()), grpc.WithTransportCredentials(insecure.NewCredentials()))
	if err != nil {
		r.Inconclusive("dial: " + err.Error())
		return r.Done()
	}
	defer conn.Close()
	cl := proto.NewOxiaClientClient(conn)
	nStreams := 1 + rng.IntN(4)
	type plan struct {
		kinds []int // 0 put ok, 1 conditional put refused, 2 delete not found, 3 two puts
		n     int
	}
	plans := make([]plan, nStreams)
	total := 0
	for s := range plans {
		plans[s].n = 30 + rng.IntN(121)
		for i := 0; i < plans[s].n; i++ {
			plans[s].kinds = append(plans[s].kinds, rng.IntN(4))
		}
		total += plans[s].n
	}
	var wg sync.WaitGroup
	for s := 0; s < nStreams; s++ {
		wg.Add(1)
		go func(s int) {
			defer wg.Done()
			ctx, cancel := context.WithTimeout(context.Background(), 60*time.Second)
			defer cancel()
			ctx = metadata.AppendToOutgoingContext(ctx, "shard-id", "0", "namespace", "default")
			st, err := cl.WriteStream(ctx)
			if err != nil {
				r.Inconclusive("open stream: " + err.Error())
				return
			}
			r.Count("streams", 1)
			p := plans[s]
			// send everything first (pipelined), in a goroutine so that flow control cannot dead-lock us
			sendDone := make(chan error, 1)
			go func() {
				for i, k := range p.kinds {
					key := fmt.Sprintf("s%d/r%d", s, i)
					req := &proto.WriteRequest{Shard: pb.Int64(0)}
					switch k {
					case 0:
						req.Puts = []*proto.PutRequest{{Key: key, Value: []byte(key)}}
					case 1:
						req.Puts = []*proto.PutRequest{{Key: key, Value: []byte(key), ExpectedVersionId: pb.Int64(987654321)}}
					case 2:
						req.Deletes = []*proto.DeleteRequest{{Key: key + "/absent"}}
					default:
						req.Puts = []*proto.PutRequest{{Key: key, Value: []byte(key)}, {Key: key + "/b", Value: []byte(key)}}
					}
					if err := st.Send(req); err != nil {
						sendDone <- err
						return
					}
					r.Count("requests_pipelined", 1)
				}
				sendDone <- nil
			}()
			lastVersion := int64(-1)
			for i, k := range p.kinds {
				resp, err := st.Recv()
				if err != nil {
					r.Violate("C08/stream-write-failed", fmt.Sprintf("stream %d: answer %d of %d: %v", s, i, p.n, err), nil)
					return
				}
				r.Count("responses_checked", 1)
				shape := fmt.Sprintf("%d puts/%d deletes", len(resp.Puts), len(resp.Deletes))
				ok := false
				switch k {
				case 0:
					ok = len(resp.Puts) == 1 && len(resp.Deletes) == 0 && resp.Puts[0].Status == proto.Status_OK
				case 1:
					ok = len(resp.Puts) == 1 && len(resp.Deletes) == 0 && resp.Puts[0].Status == proto.Status_UNEXPECTED_VERSION_ID
				case 2:
					ok = len(resp.Puts) == 0 && len(resp.Deletes) == 1 && resp.Deletes[0].Status == proto.Status_KEY_NOT_FOUND
				default:
					ok = len(resp.Puts) == 2 && resp.Puts[0].Status == proto.Status_OK && resp.Puts[1].Status == proto.Status_OK
				}
				if !ok {
					r.Violate("C08/stream-answer-belongs-to-another-request", fmt.Sprintf("stream %d of %d: answer %d has the shape %s (statuses %v), request %d was of kind %d", s, nStreams, i, shape, statuses(resp), i, k), nil)
					return
				}
				for _, pr := range resp.Puts {
					if pr.Status == proto.Status_OK {
						if pr.Version.VersionId <= lastVersion {
							r.Violate("C08/stream-answers-out-of-order", fmt.Sprintf("stream %d: answer %d carries version id %d after %d", s, i, pr.Version.VersionId, lastVersion), nil)
							return
						}
						lastVersion = pr.Version.VersionId
					}
				}
			}
			if err := <-sendDone; err != nil {
				r.Inconclusive("send: " + err.Error())
			}
			_ = st.CloseSend()
		}(s)
	}
	wg.Wait()
	if nStreams >= 2 && total >= 50 {
		r.Nontrivial()
	}
	r.FP(nStreams, total, fmt.Sprint(plans[0].kinds))
	if idx < 2 {
		r.Sample(map[string]any{"streams": nStreams, "requests": total})
	}
	return r.Done()
}

func statuses(resp *proto.WriteResponse) []string {
	var out []string
	for _, p := range resp.Puts {
		out = append(out, "put:"+p.Status.String())
	}
	for _, d := range resp.Deletes {
		out = append(out, "del:"+d.Status.String())
	}
	return out
}
