// Package client drives the real public client library (oxia.NewAsyncClient) against lib/fakeoxia:
// C20 (batching and fan-out are transparent) and the client-routing part of C18.
package client

import (
	"context"
	"errors"
	"fmt"
	"math/rand/v2"
	"sort"
	"strings"
	"sync"
	"sync/atomic"
	"time"

	"google.golang.org/grpc/codes"
	"google.golang.org/grpc/status"

	"github.com/oxia-db/oxia/common/constant"
	"github.com/oxia-db/oxia/oxia"

	"verif/lib/core"
	"verif/lib/fakeoxia"
	"verif/lib/refmodel"
)

func tierN(tier string, quick, thorough int) int {
	if tier == "thorough" {
		return thorough
	}
	return quick
}

func init() {
	core.Register(&core.Part{
		Name: "C20.batching", Prop: "C20", Race: true,
		Cases: func(tier string) int { return tierN(tier, 60, 2000) },
		Run:   runBatching,
		Rule: "the real async client (linger 0/1/5 ms, max 1/2/7/1000 requests per batch, values up to 60 KB so that the 128 KiB batch size splits) against a fake service with 1..6 shards whose answers are a function of the request alone; 2..8 caller goroutines issue 40..200 puts (unique value = operation id), deletes and gets, some answered UNEXPECTED_VERSION_ID / KEY_NOT_FOUND by design; faults per case: none, a retriable refusal (NodeIsNotLeader) of the k-th write or read request of one shard (for reads also after the first chunk of the answer is out), a non-retriable failure of it, per-shard delays, or one write request answered only after the client's request timeout (300 ms) has passed, in order, followed by the answers to the later requests of that stream (the timed-out operations have an unknown outcome; every later operation must still get its own answer); " +
			"oracle: every returned channel yields exactly one result and is closed (none within the client's own request timeout + margin = violation), the result is the fake's answer to that very operation (version id, key, value, status), an operation that failed is one the fake never applied, one that succeeded was applied exactly once, and no operation fails unless a fault was injected on a write stream or a non-retriable one on a read (a refused read must be retried transparently); " +
			"non-trivial = >= 1 request carried >= 2 operations and (if a fault was planned) it fired; distinct = (config, fault, batch-size profile)",
		MinNontrivial:    func(tier string) int { return tierN(tier, 15, 600) },
		RequiredCounters: []string{"operations", "write_requests_seen", "read_requests_seen", "max:batch_size_seen", "faults_fired", "ops_failed_by_fault"},
		CaseTimeoutS:     120,
	})
	core.Register(&core.Part{
		Name: "C20.fanout", Prop: "C20", Race: true,
		Cases: func(tier string) int { return tierN(tier, 60, 2000) },
		Run:   runFanout,
		Rule: "list, range-scan and floor/ceiling/lower/higher gets without partition key over 2..7 shards holding 30..300 hierarchical keys, answered in chunks of 1..50 with per-shard delays (a third of the shards begin every answer stream with a message that carries nothing), several calls in flight at once; optionally one shard fails its stream half way; " +
			"oracle: list = the set of keys in range over all shards (no loss, no duplicate), range-scan = exactly those records in global slash order (an independent implementation of the order), comparison get = the floor/ceiling/lower/higher of the union, every channel is closed in the end; with a failing shard the call must deliver an error and still terminate; " +
			"non-trivial = a range spanning >= 3 shards with >= 20 keys and >= 1 comparison get answered by a shard other than the probe key's; distinct = (shards, universe hash, calls)",
		MinNontrivial:    func(tier string) int { return tierN(tier, 25, 800) },
		RequiredCounters: []string{"lists", "range_scans", "comparison_gets", "keys_compared", "calls_with_a_failing_shard"},
		CaseTimeoutS:     120,
	})
	core.Register(&core.Part{
		Name: "C18.client", Prop: "C18", Race: true,
		Cases: func(tier string) int { return tierN(tier, 30, 600) },
		Run:   runRouting,
		Rule: "the real client receives 3..8 successive shard assignments from the fake service (splits 1->2->4, merges, a namespace re-created with fewer or more shards under fresh ids, non-power-of-two counts) and routes 40 probe keys after each; the fake logs the shard id every request arrives on; " +
			"oracle: once the client has taken an assignment (it is given 5 s after the push; every probe is re-sent until then), every probe key is sent to the one shard of the current assignment whose range contains its hash (repo hash function, ranges from the pushed assignment), never to a shard id that is no longer assigned; " +
			"non-trivial = >= 1 update in which a new shard overlaps >= 2 old ones; distinct = sequence of shard counts",
		MinNontrivial:    func(tier string) int { return tierN(tier, 12, 250) },
		RequiredCounters: []string{"assignments_pushed", "probes_routed", "updates_overlapping_two_or_more"},
		CaseTimeoutS:     120,
	})
}

var errNotLeader = status.Error(constant.CodeNodeIsNotLeader, "fake: node is not leader")
var errInternal = status.Error(codes.Internal, "fake: injected failure")

type opRec struct {
	kind   string // put | del | get
	key    string
	id     string // put value
	shard  int64
	done   bool
	err    error
	detail string
}

func runBatching(tier string, seed uint64, idx int) core.Result {
	r := core.NewR("C20.batching", idx)
	rng := core.CaseSeed(seed, "C20.batching", idx)
	srv, err := fakeoxia.New()
	if err != nil {
		r.Inconclusive(err.Error())
		return r.Done()
	}
	defer srv.Close()
	nShards := 1 + rng.IntN(6)
	ranges := fakeoxia.EvenRanges(int64(rng.IntN(5)), nShards)
	srv.SetRanges(ranges)
	linger := []time.Duration{0, time.Millisecond, 5 * time.Millisecond}[rng.IntN(3)]
	maxReq := []int{1, 2, 7, 1000}[rng.IntN(4)]
	faultKind := []string{"none", "none", "retriable-write", "retriable-read", "retriable-read-midstream", "fatal-write", "fatal-read", "delays", "slow-write"}[rng.IntN(9)]
	faultShard := ranges[rng.IntN(len(ranges))].ID
	faultAt := 1 + rng.IntN(4)
	var fired atomic.Int64
	switch faultKind {
	case "retriable-write", "fatal-write":
		e := errNotLeader
		if faultKind == "fatal-write" {
			e = errInternal
		}
		srv.WriteFault = func(shard int64, n int) error {
			if shard == faultShard && n == faultAt {
				fired.Add(1)
				return e
			}
			return nil
		}
	case "retriable-read", "fatal-read":
		e := errNotLeader
		if faultKind == "fatal-read" {
			e = errInternal
		}
		srv.ReadFault = func(shard int64, n int) error {
			if shard == faultShard && n == faultAt {
				fired.Add(1)
				return e
			}
			return nil
		}
	case "retriable-read-midstream":
		// the service refuses a read after part of the answer is out; the retry must start from scratch
		srv.ReadFaultMid = func(shard int64, n int) error {
			if shard == faultShard && n <= faultAt {
				fired.Add(1)
				return errNotLeader
			}
			return nil
		}
	case "slow-write":
		// one write request is answered only after the client's request timeout has passed; the answer then comes,
		// in order, followed by the answers to the requests sent after it on the same stream
		srv.WriteStall = func(shard int64, n int) time.Duration {
			if shard == faultShard && n == faultAt {
				fired.Add(1)
				return 700 * time.Millisecond
			}
			return 0
		}
	case "delays":
		ds := map[int64]time.Duration{}
		for _, rg := range ranges {
			ds[rg.ID] = time.Duration(rng.IntN(4)) * time.Millisecond
		}
		srv.Delay = func(shard int64) time.Duration { return ds[shard] }
	}
	chunk := 1 + rng.IntN(5)
	if faultKind == "retriable-read-midstream" {
		chunk = 1 + rng.IntN(2)
	}
	srv.ChunkSize = func() int { return chunk }

	reqTimeout := 3 * time.Second
	if faultKind == "slow-write" {
		reqTimeout = 300 * time.Millisecond
	}
	cl, err := oxia.NewAsyncClient(srv.Addr, oxia.WithBatchLinger(linger), oxia.WithMaxRequestsPerBatch(maxReq), oxia.WithRequestTimeout(reqTimeout))
	if err != nil {
		r.Inconclusive("client: " + err.Error())
		return r.Done()
	}
	defer cl.Close()

	callers := 2 + rng.IntN(7)
	perCaller := 20 + rng.IntN(25)
	bigValues := rng.IntN(4) == 0
	var mu sync.Mutex
	var ops []*opRec
	var wg sync.WaitGroup
	var opSeq atomic.Int64
	for c := 0; c < callers; c++ {
		wg.Add(1)
		cr := rand.New(rand.NewPCG(rng.Uint64(), uint64(c)))
		go func() {
			defer wg.Done()
			type pending struct {
				o    *opRec
				putC <-chan oxia.PutResult
				delC <-chan error
				getC <-chan oxia.GetResult
			}
			var pend []pending
			flush := func() {
				for _, p := range pend {
					o := p.o
					timeout := time.After(reqTimeout + 12*time.Second)
					switch {
					case p.putC != nil:
						select {
						case res, ok := <-p.putC:
							if !ok {
								o.detail = "channel closed without a result"
								break
							}
							o.done, o.err = true, res.Err
							if res.Err == nil {
								wantRej := strings.HasPrefix(o.key, "rej/")
								if wantRej {
									o.detail = "put answered UNEXPECTED_VERSION_ID by the service completed without error"
								} else if res.Version.VersionId != fakeoxia.Vid(o.key, o.id) || res.Key != o.key {
									o.detail = fmt.Sprintf("put %s=%s completed with key %q version %d: that is not the service's answer to this operation (%d)", o.key, o.id, res.Key, res.Version.VersionId, fakeoxia.Vid(o.key, o.id))
								}
							} else if errors.Is(res.Err, oxia.ErrUnexpectedVersionId) {
								if !strings.HasPrefix(o.key, "rej/") {
									o.detail = "put completed with ErrUnexpectedVersionId, the service answered OK to it"
								}
								o.err = nil
							}
							if _, more := <-p.putC; more {
								o.detail = "a second result was delivered"
							}
						case <-timeout:
							o.detail = "no result within the request timeout + 12 s"
						}
					case p.delC != nil:
						select {
						case e, ok := <-p.delC:
							if !ok {
								o.detail = "channel closed without a result"
								break
							}
							o.done, o.err = true, e
							wantNF := strings.HasPrefix(o.key, "nf/")
							switch {
							case e == nil && wantNF:
								o.detail = "delete answered KEY_NOT_FOUND by the service completed without error"
							case errors.Is(e, oxia.ErrKeyNotFound):
								if !wantNF {
									o.detail = "delete completed with ErrKeyNotFound, the service answered OK to it"
								}
								o.err = nil
							}
							if _, more := <-p.delC; more {
								o.detail = "a second result was delivered"
							}
						case <-timeout:
							o.detail = "no result within the request timeout + 12 s"
						}
					case p.getC != nil:
						select {
						case res, ok := <-p.getC:
							if !ok {
								o.detail = "channel closed without a result"
								break
							}
							o.done, o.err = true, res.Err
							wantNF := strings.HasPrefix(o.key, "nf/")
							switch {
							case res.Err == nil && wantNF:
								o.detail = "get answered KEY_NOT_FOUND by the service completed without error"
							case res.Err == nil:
								if string(res.Value) != "val:"+o.key || res.Version.VersionId != fakeoxia.Vid(o.key) || res.Key != o.key {
									o.detail = fmt.Sprintf("get %s completed with key %q value %q: that is the answer to another operation", o.key, res.Key, res.Value)
								}
							case errors.Is(res.Err, oxia.ErrKeyNotFound):
								if !wantNF {
									o.detail = "get completed with ErrKeyNotFound, the service answered OK to it"
								}
								o.err = nil
							}
							if _, more := <-p.getC; more {
								o.detail = "a second result was delivered"
							}
						case <-timeout:
							o.detail = "no result within the request timeout + 12 s"
						}
					}
				}
				pend = pend[:0]
			}
			for i := 0; i < perCaller; i++ {
				n := opSeq.Add(1)
				prefix := []string{"k/", "k/", "k/", "k/", "rej/", "nf/"}[cr.IntN(6)]
				key := fmt.Sprintf("%s%d/%d", prefix, cr.IntN(30), cr.IntN(4))
				o := &opRec{key: key, id: fmt.Sprintf("op-%d", n)}
				mu.Lock()
				ops = append(ops, o)
				mu.Unlock()
				switch x := cr.IntN(10); {
				case x < 5:
					o.kind = "put"
					if prefix == "nf/" {
						o.key = "k/" + key
					}
					val := o.id
					if bigValues && cr.IntN(3) == 0 {
						val = o.id + strings.Repeat(".", 20_000+cr.IntN(40_000))
						o.id = val
					}
					pend = append(pend, pending{o: o, putC: cl.Put(o.key, []byte(val))})
				case x < 7:
					o.kind = "del"
					if prefix == "rej/" {
						o.key = "k/" + key
					}
					pend = append(pend, pending{o: o, delC: cl.Delete(o.key)})
				default:
					o.kind = "get"
					if prefix == "rej/" {
						o.key = "k/" + key
					}
					pend = append(pend, pending{o: o, getC: cl.Get(o.key)})
				}
				// keep several operations in flight, collect in bursts
				if len(pend) >= 1+cr.IntN(12) {
					flush()
				}
			}
			flush()
		}()
	}
	wg.Wait()
	puts, _, shardOf, batches, readBatches := srv.Snapshot()
	r.Count("operations", int64(len(ops)))
	r.Count("write_requests_seen", int64(len(batches)))
	r.Count("read_requests_seen", int64(len(readBatches)))
	maxBatch := 0
	for _, b := range append(batches, readBatches...) {
		if b > maxBatch {
			maxBatch = b
		}
	}
	r.Max("max:batch_size_seen", int64(maxBatch))
	r.Count("faults_fired", fired.Load())
	// a write stream that the service ends with an error status surfaces in the client as a closed stream (EOF) whatever
	// the status was: the operations on it fail instead of being retried. That is a failure report for those very
	// operations, which the property allows; what it must not do is apply them, answer others wrongly, or hang.
	fatal := (strings.HasPrefix(faultKind, "fatal") || faultKind == "retriable-write" || faultKind == "slow-write") && fired.Load() > 0
	for _, o := range ops {
		where := fmt.Sprintf("%s %s (linger %v, max %d per batch, %d shards, fault %s)", o.kind, o.key, linger, maxReq, nShards, faultKind)
		switch {
		case o.detail != "":
			cls := "wrong-result"
			switch {
			case strings.Contains(o.detail, "no result"):
				cls = "never-completed"
			case strings.Contains(o.detail, "second result"):
				cls = "completed-twice"
			case strings.Contains(o.detail, "closed without"):
				cls = "closed-without-result"
			}
			r.Violate("C20/"+cls+"/"+o.kind, o.detail+": "+where, nil)
		case o.err != nil:
			r.Count("ops_failed_by_fault", 1)
			if !fatal {
				r.Violate("C20/operation-failed-without-a-fault/"+o.kind, fmt.Sprintf("%v: %s", o.err, where), nil)
			} else if faultKind == "slow-write" {
				// the outcome of an operation that timed out on the client is unknown: it may have been applied
				r.Count("ops_timed_out_on_the_client", 1)
			} else if o.kind == "put" && puts[o.id] > 0 {
				r.Violate("C20/failed-operation-was-applied", where, nil)
			}
		case o.kind == "put":
			if puts[o.id] != 1 {
				r.Violate("C20/successful-put-applied-"+fmt.Sprint(puts[o.id])+"-times", where, nil)
			}
			if own := fakeoxia.Owner(ranges, o.key); len(own) != 1 || own[0] != shardOf[o.id] {
				r.Violate("C20/put-sent-to-the-wrong-shard", fmt.Sprintf("%s arrived on shard %d, owner %v", where, shardOf[o.id], own), nil)
			}
		}
	}
	planned := faultKind != "none" && faultKind != "delays"
	if maxBatch >= 2 && (!planned || fired.Load() > 0) {
		r.Nontrivial()
	}
	sort.Ints(batches)
	r.FP(linger, maxReq, nShards, faultKind, fmt.Sprint(batches))
	if idx < 3 {
		r.Sample(map[string]any{"linger": linger.String(), "max_requests_per_batch": maxReq, "shards": nShards, "fault": faultKind, "callers": callers, "operations": len(ops), "write_requests": len(batches), "largest_batch": maxBatch})
	}
	return r.Done()
}

var spans = []string{"a", "b", "ab", "a.", "a0", "a-", "c", "zz"}

func genKeys(rng *rand.Rand, n int) []string {
	set := map[string]bool{}
	var out []string
	for len(out) < n {
		d := 1 + rng.IntN(3)
		var p []string
		for i := 0; i < d; i++ {
			p = append(p, spans[rng.IntN(len(spans))])
		}
		k := strings.Join(p, "/")
		if rng.IntN(3) == 0 {
			k += fmt.Sprint(rng.IntN(50))
		}
		if !set[k] {
			set[k] = true
			out = append(out, k)
		}
	}
	return out
}

func sortedSlash(keys []string) []string {
	out := append([]string{}, keys...)
	sort.Slice(out, func(i, j int) bool { return refmodel.SlashCmp(out[i], out[j]) < 0 })
	return out
}

func runFanout(tier string, seed uint64, idx int) core.Result {
	r := core.NewR("C20.fanout", idx)
	rng := core.CaseSeed(seed, "C20.fanout", idx)
	srv, err := fakeoxia.New()
	if err != nil {
		r.Inconclusive(err.Error())
		return r.Done()
	}
	defer srv.Close()
	nShards := 2 + rng.IntN(6)
	ranges := fakeoxia.EvenRanges(int64(rng.IntN(3)), nShards)
	universe := genKeys(rng, 30+rng.IntN(271))
	srv.Universe = universe
	srv.SetRanges(ranges)
	chunkMax := 1 + rng.IntN(50)
	var cmu sync.Mutex
	crng := rand.New(rand.NewPCG(rng.Uint64(), 7))
	srv.ChunkSize = func() int { cmu.Lock(); defer cmu.Unlock(); return 1 + crng.IntN(chunkMax) }
	ds := map[int64]time.Duration{}
	for _, rg := range ranges {
		ds[rg.ID] = time.Duration(rng.IntN(3)) * time.Millisecond
	}
	srv.Delay = func(shard int64) time.Duration { return ds[shard] }
	// some shards begin every list / range-scan answer with a message that carries nothing
	emptyFirst := map[int64]bool{}
	for _, rg := range ranges {
		if rng.IntN(3) == 0 {
			emptyFirst[rg.ID] = true
			r.Count("shards_answering_with_an_empty_first_message", 1)
		}
	}
	srv.EmptyFirstChunk = func(shard int64) bool { return emptyFirst[shard] }
	failing := rng.IntN(4) == 0
	failShard := ranges[rng.IntN(len(ranges))].ID
	var failOn atomic.Bool
	srv.ScanFault = func(shard int64, _ string) error {
		if failOn.Load() && shard == failShard {
			return errInternal
		}
		return nil
	}
	cl, err := oxia.NewAsyncClient(srv.Addr, oxia.WithRequestTimeout(3*time.Second))
	if err != nil {
		r.Inconclusive("client: " + err.Error())
		return r.Done()
	}
	defer cl.Close()
	all := sortedSlash(universe)
	inRange := func(a, b string) []string {
		var out []string
		for _, k := range all {
			if refmodel.SlashCmp(k, a) >= 0 && refmodel.SlashCmp(k, b) < 0 {
				out = append(out, k)
			}
		}
		return out
	}
	shardsOf := func(keys []string) int {
		m := map[int64]bool{}
		for _, k := range keys {
			for _, o := range fakeoxia.Owner(ranges, k) {
				m[o] = true
			}
		}
		return len(m)
	}
	bigSpan := false
	var crossGet, readFail atomic.Bool
	srv.ReadFault = func(int64, int) error {
		if readFail.Load() {
			return errInternal
		}
		return nil
	}
	calls := 6 + rng.IntN(10)
	var wg sync.WaitGroup
	var trace []string
	for c := 0; c < calls && r.Violations() == 0; c++ {
		a, b := all[rng.IntN(len(all))], all[rng.IntN(len(all))]
		if refmodel.SlashCmp(a, b) > 0 {
			a, b = b, a
		}
		if rng.IntN(3) == 0 {
			a, b = "", "zzzz/zzzz/zzzz/zzzz"
		}
		want := inRange(a, b)
		if len(want) >= 20 && shardsOf(want) >= 3 {
			bigSpan = true
		}
		withFailure := failing && c == calls/2
		if withFailure {
			r.Count("calls_with_a_failing_shard", 1)
		}
		kind := rng.IntN(3)
		probeSuffix := rng.IntN(2) == 0
		cmpIdx := rng.IntN(4)
		// with a partition key the call goes to one shard only
		var pk *string
		if kind != 2 && rng.IntN(4) == 0 {
			v := fmt.Sprintf("pk-%d", rng.IntN(100))
			pk = &v
			own := fakeoxia.Owner(ranges, v)
			var sub []string
			for _, k := range want {
				if o := fakeoxia.Owner(ranges, k); len(o) == 1 && len(own) == 1 && o[0] == own[0] {
					sub = append(sub, k)
				}
			}
			want = sub
			if withFailure {
				failShard = own[0]
			}
			r.Count("single_shard_calls", 1)
		}
		trace = append(trace, fmt.Sprintf("%d[%q,%q)pk=%v", kind, a, b, pk != nil))
		run := func() {
			ctx, cancel := context.WithTimeout(context.Background(), 20*time.Second)
			defer cancel()
			switch kind {
			case 0:
				r.Count("lists", 1)
				var lo []oxia.ListOption
				if pk != nil {
					lo = append(lo, oxia.PartitionKey(*pk))
				}
				ch := cl.List(ctx, a, b, lo...)
				var got []string
				var gerr error
				closed := false
				for !closed {
					select {
					case res, ok := <-ch:
						if !ok {
							closed = true
							break
						}
						if res.Err != nil {
							gerr = res.Err
						}
						got = append(got, res.Keys...)
					case <-ctx.Done():
						r.Violate("C20/list-never-completed", fmt.Sprintf("list [%q,%q) over %d shards: channel not closed after 20 s (failing shard: %v)", a, b, nShards, withFailure), nil)
						return
					}
				}
				if withFailure {
					if gerr == nil {
						r.Violate("C20/list-shard-failure-not-reported", fmt.Sprintf("list [%q,%q): shard %d failed its stream, no error was delivered (%d of %d keys)", a, b, failShard, len(got), len(want)), nil)
					}
					return
				}
				if gerr != nil {
					r.Violate("C20/list-error-without-a-fault", gerr.Error(), nil)
					return
				}
				r.Count("keys_compared", int64(len(want)))
				g := sortedSlash(got)
				if strings.Join(g, "\x00") != strings.Join(want, "\x00") {
					r.Violate("C20/list-is-not-the-union-of-the-shards", fmt.Sprintf("list [%q,%q) over %d shards: got %d keys, the shards hold %d; %s", a, b, nShards, len(got), len(want), firstDiff(g, want)), nil)
				}
			case 1:
				r.Count("range_scans", 1)
				var so []oxia.RangeScanOption
				if pk != nil {
					so = append(so, oxia.PartitionKey(*pk))
				}
				ch := cl.RangeScan(ctx, a, b, so...)
				var got []string
				var gerr error
				closed := false
				for !closed {
					select {
					case res, ok := <-ch:
						if !ok {
							closed = true
							break
						}
						if res.Err != nil {
							gerr = res.Err
							continue
						}
						if string(res.Value) != "val:"+res.Key {
							r.Violate("C20/range-scan-record-mixed-up", fmt.Sprintf("key %q came with value %q", res.Key, res.Value), nil)
						}
						got = append(got, res.Key)
					case <-ctx.Done():
						r.Violate("C20/range-scan-never-completed", fmt.Sprintf("range-scan [%q,%q) over %d shards: channel not closed after 20 s (failing shard: %v)", a, b, nShards, withFailure), nil)
						return
					}
				}
				if withFailure {
					if gerr == nil {
						r.Violate("C20/range-scan-shard-failure-not-reported", fmt.Sprintf("range-scan [%q,%q): shard %d failed its stream, no error was delivered", a, b, failShard), nil)
					}
					return
				}
				if gerr != nil {
					r.Violate("C20/range-scan-error-without-a-fault", gerr.Error(), nil)
					return
				}
				r.Count("keys_compared", int64(len(want)))
				if strings.Join(got, "\x00") != strings.Join(want, "\x00") {
					cls := "not-the-union-of-the-shards"
					if strings.Join(sortedSlash(got), "\x00") == strings.Join(want, "\x00") {
						cls = "not-in-global-key-order"
					}
					r.Violate("C20/range-scan-"+cls, fmt.Sprintf("range-scan [%q,%q) over %d shards: got %d records, the shards hold %d; %s", a, b, nShards, len(got), len(want), firstDiff(got, want)), nil)
				}
			default:
				r.Count("comparison_gets", 1)
				probe := a
				if probeSuffix {
					probe = a + "0"
				}
				type cmpT struct {
					name string
					opt  oxia.GetOption
					pick func() (string, bool)
				}
				find := func(pred func(c int) bool, last bool) (string, bool) {
					best, ok := "", false
					for _, k := range all {
						if pred(refmodel.SlashCmp(k, probe)) {
							if !ok || last {
								best, ok = k, true
							}
							if !last {
								break
							}
						}
					}
					return best, ok
				}
				cmps := []cmpT{
					{"floor", oxia.ComparisonFloor(), func() (string, bool) { return find(func(c int) bool { return c <= 0 }, true) }},
					{"lower", oxia.ComparisonLower(), func() (string, bool) { return find(func(c int) bool { return c < 0 }, true) }},
					{"ceiling", oxia.ComparisonCeiling(), func() (string, bool) { return find(func(c int) bool { return c >= 0 }, false) }},
					{"higher", oxia.ComparisonHigher(), func() (string, bool) { return find(func(c int) bool { return c > 0 }, false) }},
				}
				ct := cmps[cmpIdx]
				wantKey, wantOK := ct.pick()
				if withFailure {
					// every shard refuses the read: exactly one error, the channel is closed, nothing panics
					readFail.Store(true)
					defer readFail.Store(false)
					gch := cl.Get(probe, ct.opt)
					n, nerr := 0, 0
					for closed := false; !closed; {
						select {
						case res, ok := <-gch:
							if !ok {
								closed = true
								break
							}
							n++
							if res.Err != nil {
								nerr++
							}
						case <-ctx.Done():
							r.Violate("C20/comparison-get-never-completed/all-shards-failing", ct.name+" "+probe, nil)
							return
						}
					}
					if n != 1 || nerr != 1 {
						r.Violate("C20/comparison-get-with-failing-shards", fmt.Sprintf("%s(%q) over %d shards that all fail the read: %d results, %d errors (exactly one error expected)", ct.name, probe, nShards, n, nerr), nil)
					}
					return
				}
				select {
				case res, ok := <-cl.Get(probe, ct.opt):
					switch {
					case !ok:
						r.Violate("C20/comparison-get-closed-without-result", ct.name+" "+probe, nil)
					case !wantOK:
						if !errors.Is(res.Err, oxia.ErrKeyNotFound) {
							r.Violate("C20/comparison-get-wrong/"+ct.name, fmt.Sprintf("%s(%q) over %d shards: got %q err %v, no key qualifies", ct.name, probe, nShards, res.Key, res.Err), nil)
						}
					case res.Err != nil || res.Key != wantKey:
						r.Violate("C20/comparison-get-wrong/"+ct.name, fmt.Sprintf("%s(%q) over %d shards: got %q (err %v), the union's answer is %q", ct.name, probe, nShards, res.Key, res.Err, wantKey), nil)
					default:
						po, wo := fakeoxia.Owner(ranges, probe), fakeoxia.Owner(ranges, wantKey)
						if len(po) == 1 && len(wo) == 1 && po[0] != wo[0] {
							crossGet.Store(true)
						}
					}
				case <-ctx.Done():
					r.Violate("C20/comparison-get-never-completed", ct.name+" "+probe, nil)
				}
			}
		}
		// several calls in flight at once, except the one with the failing shard
		if withFailure || rng.IntN(2) == 0 {
			wg.Wait()
			failOn.Store(withFailure)
			run()
			failOn.Store(false)
		} else {
			wg.Add(1)
			go func() { defer wg.Done(); run() }()
		}
	}
	wg.Wait()
	if !failing {
		r.Count("calls_with_a_failing_shard", 0)
	}
	if bigSpan && crossGet.Load() {
		r.Nontrivial()
	}
	r.FP(nShards, len(universe), strings.Join(trace, ";"))
	if idx < 3 {
		r.Sample(map[string]any{"shards": nShards, "keys": len(universe), "calls": trace, "chunk_max": chunkMax})
	}
	return r.Done()
}

func firstDiff(got, want []string) string {
	for i := 0; i < len(got) || i < len(want); i++ {
		g, w := "<end>", "<end>"
		if i < len(got) {
			g = got[i]
		}
		if i < len(want) {
			w = want[i]
		}
		if g != w {
			return fmt.Sprintf("first difference at position %d: got %q, expected %q", i, g, w)
		}
	}
	return ""
}

// ---------- C18.client ----------

func runRouting(tier string, seed uint64, idx int) core.Result {
	r := core.NewR("C18.client", idx)
	rng := core.CaseSeed(seed, "C18.client", idx)
	srv, err := fakeoxia.New()
	if err != nil {
		r.Inconclusive(err.Error())
		return r.Done()
	}
	defer srv.Close()
	nextID := int64(0)
	mk := func(n int) []fakeoxia.Range {
		rg := fakeoxia.EvenRanges(nextID, n)
		nextID += int64(n)
		return rg
	}
	cur := mk(1 + rng.IntN(5))
	srv.SetRanges(cur)
	cl, err := oxia.NewAsyncClient(srv.Addr, oxia.WithBatchLinger(0), oxia.WithRequestTimeout(3*time.Second))
	if err != nil {
		r.Inconclusive("client: " + err.Error())
		return r.Done()
	}
	defer cl.Close()
	var probes []string
	for i := 0; i < 40; i++ {
		probes = append(probes, fmt.Sprintf("probe-%d-%d", idx, rng.IntN(1_000_000)))
	}
	updates := 3 + rng.IntN(6)
	var counts []int
	opN := 0
	for u := 0; u <= updates && r.Violations() == 0; u++ {
		if u > 0 {
			old := cur
			switch rng.IntN(4) {
			case 0: // split every shard in two, fresh ids
				var nr []fakeoxia.Range
				for _, o := range old {
					mid := uint32((uint64(o.Min) + uint64(o.Max)) / 2)
					nr = append(nr, fakeoxia.Range{ID: nextID, Min: o.Min, Max: mid}, fakeoxia.Range{ID: nextID + 1, Min: mid + 1, Max: o.Max})
					nextID += 2
				}
				if len(nr) > 16 {
					nr = mk(3)
				}
				cur = nr
			case 1: // merge neighbours pairwise
				var nr []fakeoxia.Range
				for i := 0; i < len(old); i += 2 {
					if i+1 < len(old) {
						nr = append(nr, fakeoxia.Range{ID: nextID, Min: old[i].Min, Max: old[i+1].Max})
					} else {
						nr = append(nr, fakeoxia.Range{ID: nextID, Min: old[i].Min, Max: old[i].Max})
					}
					nextID++
				}
				cur = nr
			default: // re-created with another shard count
				cur = mk(1 + rng.IntN(7))
			}
			overl := 0
			for _, n := range cur {
				c := 0
				for _, o := range old {
					if n.Min <= o.Max && o.Min <= n.Max {
						c++
					}
				}
				if c >= 2 {
					overl++
				}
			}
			if overl > 0 {
				r.Count("updates_overlapping_two_or_more", 1)
			}
			srv.SetRanges(cur)
		}
		r.Count("assignments_pushed", 1)
		counts = append(counts, len(cur))
		valid := map[int64]bool{}
		for _, x := range cur {
			valid[x.ID] = true
		}
		// probe until every key is routed by the current assignment (bounded)
		deadline := time.Now().Add(5 * time.Second)
		pending := append([]string{}, probes...)
		var lastBad string
		for len(pending) > 0 {
			var still []string
			for _, k := range pending {
				opN++
				id := fmt.Sprintf("route-%d", opN)
				var res oxia.PutResult
				func() {
					defer func() {
						if p := recover(); p != nil {
							res.Err = fmt.Errorf("panic: %v", p)
						}
					}()
					select {
					case res = <-cl.Put(k, []byte(id)):
					case <-time.After(10 * time.Second):
						res.Err = errors.New("no result in 10 s")
					}
				}()
				_, _, shardOf, _, _ := srv.Snapshot()
				got, arrived := shardOf[id]
				own := fakeoxia.Owner(cur, k)
				switch {
				case res.Err == nil && arrived && len(own) == 1 && got == own[0]:
					r.Count("probes_routed", 1)
				default:
					still = append(still, k)
					lastBad = fmt.Sprintf("key %q (hash owner under the current assignment: shard %v) was sent to shard %d (still assigned: %v), err %v", k, own, got, valid[got], res.Err)
				}
			}
			pending = still
			if len(pending) > 0 && time.Now().After(deadline) {
				r.Violate("C18/client-routes-key-to-a-shard-that-does-not-own-it", fmt.Sprintf("5 s after assignment #%d (%d shards) was pushed: %s; %d of %d probe keys affected", u, len(cur), lastBad, len(pending), len(probes)), nil)
				break
			}
			if len(pending) > 0 {
				time.Sleep(10 * time.Millisecond)
			}
		}
		// every shard id of an assignment is fresh, so one correct pass proves that the client has taken it; from here
		// on every request must go to the owner, every time (a stale overlapping range would win some of the lookups)
		for pass := 0; pass < 3 && r.Violations() == 0; pass++ {
			for _, k := range probes {
				opN++
				id := fmt.Sprintf("route-%d", opN)
				var res oxia.PutResult
				select {
				case res = <-cl.Put(k, []byte(id)):
				case <-time.After(10 * time.Second):
					res.Err = errors.New("no result in 10 s")
				}
				_, _, shardOf, _, _ := srv.Snapshot()
				got, arrived := shardOf[id]
				own := fakeoxia.Owner(cur, k)
				if res.Err != nil || !arrived || len(own) != 1 || got != own[0] {
					r.Violate("C18/client-routes-key-to-a-shard-that-does-not-own-it/after-taking-the-assignment", fmt.Sprintf("assignment #%d (%d shards): key %q (owner: shard %v) was sent to shard %d (still assigned: %v), err %v", u, len(cur), k, own, got, valid[got], res.Err), nil)
					break
				}
				r.Count("probes_routed", 1)
			}
		}
	}
	if r.Get("updates_overlapping_two_or_more") > 0 {
		r.Nontrivial()
	}
	r.FP(fmt.Sprint(counts))
	if idx < 3 {
		r.Sample(map[string]any{"shard_counts": counts})
	}
	return r.Done()
}
