// Package coordpure checks the coordinator's pure decision functions: ensemble selection,
// rebalancing proposals (C19) and shard-map arithmetic (C18).
package coordpure

import (
	"context"
	"fmt"
	"math/rand/v2"
	"sort"
	"strings"
	"time"

	"github.com/emirpasic/gods/v2/sets/linkedhashset"

	"github.com/oxia-db/oxia/coordinator/balancer"
	"github.com/oxia-db/oxia/coordinator/metadata"
	"github.com/oxia-db/oxia/coordinator/model"
	"github.com/oxia-db/oxia/coordinator/policies"
	"github.com/oxia-db/oxia/coordinator/resources"
	"github.com/oxia-db/oxia/coordinator/selectors/ensemble"
	"github.com/oxia-db/oxia/coordinator/selectors/single"
	"github.com/oxia-db/oxia/coordinator/utils"

	"verif/lib/core"
)

func tierN(tier string, quick, thorough int) int {
	if tier == "thorough" {
		return thorough
	}
	return quick
}

func init() {
	core.Register(&core.Part{
		Name: "C19.select", Prop: "C19",
		Cases: func(tier string) int { return tierN(tier, 200, 4000) },
		Run:   runC19Select,
		Rule: "each case = 100 (quick) / 500 (thorough) seeded selector inputs: 1..12 servers, 0..3 label keys with 1..4 values, 0..2 strict rules of 1..2 labels, RF 1..5 (incl. RF > servers, RF > distinct label values), random and skewed existing placements, with and without a load-ratio supplier; " +
			"oracle: result has exactly RF distinct members of the candidate set and no two members agree on all labels of a strict rule, or an error; a panic is a violation; non-trivial = input has a strict rule or RF >= 2; distinct = input hash",
		MinNontrivial:    func(tier string) int { return tierN(tier, 40, 1500) },
		RequiredCounters: []string{"selections_ok", "selections_refused", "inputs_with_rules"},
	})
	core.Register(&core.Part{
		Name: "C19.balancer", Prop: "C19",
		Cases: func(tier string) int { return tierN(tier, 64, 1500) },
		Run:   runC19Balancer,
		Rule: "a real balancer.NewLoadBalancer over real status/config resources (memory metadata): skewed placements, servers removed from the config while hosting shards; every SwapNodeAction must name a target that is in the current cluster and not already in that shard's ensemble; applying it replaces exactly one member; " +
			"non-trivial = >= 1 swap proposed; distinct = (cluster shape, proposals)",
		MinNontrivial:    func(tier string) int { return tierN(tier, 4, 100) },
		RequiredCounters: []string{"swap_actions"},
		CaseTimeoutS:     60,
	})
}

type selInput struct {
	Servers   []string                     `json:"servers"`
	Labels    map[string]map[string]string `json:"labels"`
	Rules     [][]string                   `json:"rules"`
	RF        int                          `json:"rf"`
	Placement map[string][]string          `json:"placement,omitempty"` // shard -> ensemble
	ServerIdx uint32                       `json:"server_idx"`
	LoadRatio bool                         `json:"load_ratio"`
}

func genSelInput(rng *rand.Rand) selInput {
	in := selInput{Labels: map[string]map[string]string{}}
	n := 1 + rng.IntN(12)
	for i := 0; i < n; i++ {
		in.Servers = append(in.Servers, fmt.Sprintf("s%d", i))
	}
	keys := []string{"zone", "rack", "type"}[:rng.IntN(4)]
	nvals := 1 + rng.IntN(4)
	for _, s := range in.Servers {
		l := map[string]string{}
		for _, k := range keys {
			l[k] = fmt.Sprintf("%s%d", k[:1], rng.IntN(nvals))
		}
		in.Labels[s] = l
	}
	if len(keys) > 0 {
		for r := rng.IntN(3); r > 0; r-- {
			nl := 1
			if len(keys) > 1 && rng.IntN(3) == 0 {
				nl = 2
			}
			perm := rng.Perm(len(keys))
			var ls []string
			for _, p := range perm[:nl] {
				ls = append(ls, keys[p])
			}
			in.Rules = append(in.Rules, ls)
		}
	}
	in.RF = 1 + rng.IntN(5)
	if rng.IntN(3) > 0 && in.RF > n {
		in.RF = 1 + rng.IntN(n)
	}
	in.ServerIdx = uint32(rng.IntN(20))
	in.LoadRatio = rng.IntN(2) == 0
	if rng.IntN(3) > 0 {
		in.Placement = map[string][]string{}
		shards := rng.IntN(12)
		skew := rng.IntN(2) == 0
		for sh := 0; sh < shards; sh++ {
			rf := 1 + rng.IntN(3)
			if rf > n {
				rf = n
			}
			var esm []string
			perm := rng.Perm(n)
			if skew {
				sort.Ints(perm)
			}
			for _, p := range perm[:rf] {
				esm = append(esm, in.Servers[p])
			}
			in.Placement[fmt.Sprintf("%d", sh)] = esm
		}
	}
	return in
}

func serverOf(id string) model.Server {
	name := id
	return model.Server{Name: &name, Public: id + ":6648", Internal: id + ":6649"}
}

func (in selInput) status() *model.ClusterStatus {
	st := model.NewClusterStatus()
	st.ServerIdx = in.ServerIdx
	if in.Placement != nil {
		ns := model.NamespaceStatus{ReplicationFactor: 3, Shards: map[int64]model.ShardMetadata{}}
		for k, esm := range in.Placement {
			var id int64
			fmt.Sscan(k, &id)
			var servers []model.Server
			for _, s := range esm {
				servers = append(servers, serverOf(s))
			}
			ns.Shards[id] = model.ShardMetadata{Ensemble: servers, Status: model.ShardStatusSteadyState}
		}
		st.Namespaces["existing"] = ns
		st.ShardIdGenerator = int64(len(in.Placement))
	}
	return st
}

func (in selInput) policies() *policies.Policies {
	if len(in.Rules) == 0 {
		return nil
	}
	p := &policies.Policies{}
	for _, r := range in.Rules {
		p.AntiAffinities = append(p.AntiAffinities, policies.AntiAffinity{Labels: r, Mode: policies.Strict})
	}
	return p
}

func (in selInput) meta() map[string]model.ServerMetadata {
	md := map[string]model.ServerMetadata{}
	for s, l := range in.Labels {
		md[s] = model.ServerMetadata{Labels: l}
	}
	return md
}

// checkEnsemble evaluates the property's predicate on a proposed ensemble.
func checkEnsemble(in selInput, esm []string) (clause, detail string) {
	if len(esm) != in.RF {
		return "wrong-size", fmt.Sprintf("ensemble %v has %d members, RF=%d", esm, len(esm), in.RF)
	}
	seen := map[string]bool{}
	valid := map[string]bool{}
	for _, s := range in.Servers {
		valid[s] = true
	}
	for _, s := range esm {
		if seen[s] {
			return "duplicate-member", fmt.Sprintf("ensemble %v contains %s twice", esm, s)
		}
		seen[s] = true
		if !valid[s] {
			return "foreign-member", fmt.Sprintf("ensemble %v contains %q which is not in the cluster", esm, s)
		}
	}
	for _, rule := range in.Rules {
		for i := 0; i < len(esm); i++ {
			for j := i + 1; j < len(esm); j++ {
				same := true
				for _, l := range rule {
					if in.Labels[esm[i]][l] != in.Labels[esm[j]][l] {
						same = false
						break
					}
				}
				if same {
					kind := "single-label"
					if len(rule) > 1 {
						kind = "multi-label"
					}
					return "anti-affinity-violated:" + kind, fmt.Sprintf("members %s and %s agree on every label of the strict rule %v (%v)", esm[i], esm[j], rule, in.Labels[esm[i]])
				}
			}
		}
	}
	return "", ""
}

func runSelect(in selInput) (esm []string, err error, panicMsg string) {
	defer func() {
		if p := recover(); p != nil {
			panicMsg = fmt.Sprint(p)
		}
	}()
	cands := linkedhashset.New[string](in.Servers...)
	st := in.status()
	ctx := &ensemble.Context{
		Candidates:         cands,
		CandidatesMetadata: in.meta(),
		Policies:           in.policies(),
		Status:             st,
		Replicas:           in.RF,
	}
	if in.LoadRatio {
		ctx.LoadRatioSupplier = func() *model.Ratio {
			g, h := utils.GroupingShardsNodeByStatus(cands, st)
			return single.DefaultShardsRank(&model.RatioParams{NodeShardsInfos: g, HistoryNodes: h})
		}
	}
	esm, err = ensemble.NewSelector().Select(ctx)
	return esm, err, ""
}

func runC19Select(tier string, seed uint64, idx int) core.Result {
	r := core.NewR("C19.select", idx)
	rng := core.CaseSeed(seed, "C19.select", idx)
	n := tierN(tier, 100, 500)
	var fp []string
	for i := 0; i < n; i++ {
		in := genSelInput(rng)
		esm, err, pm := runSelect(in)
		shape := fmt.Sprintf("servers=%d,rf=%d,rules=%d", len(in.Servers), in.RF, len(in.Rules))
		if len(in.Rules) > 0 {
			r.Count("inputs_with_rules", 1)
		}
		if in.RF > len(in.Servers) {
			r.Count("inputs_rf_gt_servers", 1)
		}
		switch {
		case pm != "":
			why := "other"
			if in.RF > len(in.Servers) {
				why = "rf>servers"
			} else if len(in.Rules) > 0 {
				why = "rules-unsatisfiable"
			}
			r.Violate("C19/select-panic/"+why, fmt.Sprintf("ensemble.Select panicked (%s) instead of refusing; %s", pm, shape), in)
		case err != nil:
			r.Count("selections_refused", 1)
		default:
			r.Count("selections_ok", 1)
			if clause, detail := checkEnsemble(in, esm); clause != "" {
				r.Violate("C19/select/"+clause, detail+"; "+shape, map[string]any{"input": in, "ensemble": esm})
			}
		}
		if len(in.Rules) > 0 || in.RF >= 2 {
			fp = append(fp, core.Hash(core.JSON(in)))
		}
		if i == 0 && idx < 2 {
			r.Sample(map[string]any{"input": in, "ensemble": esm, "error": fmt.Sprint(err)})
		}
	}
	if len(fp) > 0 {
		r.Nontrivial()
	}
	r.FP(strings.Join(fp, ","))
	return r.Done()
}

// ---- balancer ----

func runC19Balancer(tier string, seed uint64, idx int) core.Result {
	r := core.NewR("C19.balancer", idx)
	rng := core.CaseSeed(seed, "C19.balancer", idx)
	in := genSelInput(rng)
	for len(in.Servers) < 3 {
		in = genSelInput(rng)
	}
	// multi-label rules have no stated contract for the single-server path either; keep them (weak reading).
	nShards := 4 + rng.IntN(20)
	rf := 1 + rng.IntN(3)
	if rf > len(in.Servers) {
		rf = len(in.Servers)
	}
	// skewed placement on a prefix of the servers; some of those servers are then removed from the config
	hosts := in.Servers[:rf+rng.IntN(len(in.Servers)-rf+1)]
	st := model.NewClusterStatus()
	ns := model.NamespaceStatus{ReplicationFactor: uint32(rf), Shards: map[int64]model.ShardMetadata{}}
	for sh := 0; sh < nShards; sh++ {
		perm := rng.Perm(len(hosts))
		var esm []model.Server
		for _, p := range perm[:rf] {
			esm = append(esm, serverOf(hosts[p]))
		}
		leader := esm[0]
		ns.Shards[int64(sh)] = model.ShardMetadata{Status: model.ShardStatusSteadyState, Term: 1, Leader: &leader, Ensemble: esm}
	}
	st.Namespaces["ns"] = ns
	st.ShardIdGenerator = int64(nShards)

	removed := map[string]bool{}
	if rng.IntN(2) == 0 && len(in.Servers) > rf+1 {
		removed[hosts[rng.IntN(len(hosts))]] = true
	}
	var cfgServers []model.Server
	md := map[string]model.ServerMetadata{}
	for _, s := range in.Servers {
		if removed[s] {
			continue
		}
		cfgServers = append(cfgServers, serverOf(s))
		md[s] = model.ServerMetadata{Labels: in.Labels[s]}
	}
	cfg := model.ClusterConfig{
		Namespaces:     []model.NamespaceConfig{{Name: "ns", InitialShardCount: uint32(nShards), ReplicationFactor: uint32(rf), Policies: in.policies()}},
		Servers:        cfgServers,
		ServerMetadata: md,
	}
	meta := metadata.NewMetadataProviderMemory()
	if _, err := meta.Store(st, metadata.NotExists); err != nil {
		r.Inconclusive("store: " + err.Error())
		return r.Done()
	}
	statusRes := resources.NewStatusResource(meta)
	ctx, cancel := context.WithCancel(context.Background())
	defer cancel()
	cfgRes := resources.NewClusterConfigResource(ctx, func() (model.ClusterConfig, error) { return cfg, nil }, make(chan any), nil)
	defer cfgRes.Close()
	lb := balancer.NewLoadBalancer(balancer.Options{Context: ctx, StatusResource: statusRes, ClusterConfigResource: cfgRes,
		ScheduleInterval: time.Hour, QuarantineTime: time.Hour})
	defer lb.Close()

	inCluster := map[string]bool{}
	for _, s := range cfgServers {
		inCluster[s.GetIdentifier()] = true
	}
	var proposals []string
	rounds := 1 + rng.IntN(4)
	for round := 0; round < rounds && r.Violations() == 0; round++ {
		lb.Trigger()
		idle := time.NewTimer(300 * time.Millisecond)
	drain:
		for {
			select {
			case a := <-lb.Action():
				sw, ok := a.(*balancer.SwapNodeAction)
				if !ok {
					a.Done()
					continue
				}
				r.Count("swap_actions", 1)
				cur := statusRes.Load().Namespaces["ns"].Shards[sw.Shard]
				var before []string
				for _, s := range cur.Ensemble {
					before = append(before, s.GetIdentifier())
				}
				to, from := sw.To.GetIdentifier(), sw.From.GetIdentifier()
				proposals = append(proposals, fmt.Sprintf("%d:%s>%s", sw.Shard, from, to))
				wit := map[string]any{"shard": sw.Shard, "from": from, "to": to, "ensemble": before, "servers": in.Servers, "removed": removed, "labels": in.Labels, "rules": in.Rules}
				switch {
				case contains(before, to):
					r.Violate("C19/balancer/target-already-in-ensemble", fmt.Sprintf("swap shard %d %s->%s but ensemble is %v", sw.Shard, from, to, before), wit)
				case !inCluster[to]:
					r.Violate("C19/balancer/target-not-in-cluster", fmt.Sprintf("swap shard %d %s->%s: target not in the cluster config", sw.Shard, from, to), wit)
				case to == from:
					r.Violate("C19/balancer/noop-swap", fmt.Sprintf("swap shard %d %s->%s", sw.Shard, from, to), wit)
				case !contains(before, from):
					// the proposal is computed on a snapshot; a source that left the ensemble meanwhile is not a placement error
					r.Count("swap_from_not_in_ensemble", 1)
				default:
					// apply like the shard controller does: remove `from`, append `to`
					var after []model.Server
					for _, s := range cur.Ensemble {
						if s.GetIdentifier() != from {
							after = append(after, s)
						}
					}
					after = append(after, sw.To)
					ids := []string{}
					for _, s := range after {
						ids = append(ids, s.GetIdentifier())
					}
					chk := in
					chk.RF = rf
					chk.Rules = nil // the initial random placement may itself break a rule; judge only the new member below
					if clause, detail := checkEnsemble(chk, ids); clause != "" && clause != "foreign-member" {
						r.Violate("C19/balancer/"+clause, detail, wit)
					}
					for _, rule := range in.Rules {
						for _, other := range ids {
							if other == to || removed[other] {
								// a member that left the cluster config has no labels any more: nothing to compare with
								continue
							}
							same := true
							for _, l := range rule {
								if in.Labels[other][l] != in.Labels[to][l] {
									same = false
								}
							}
							if same {
								kind := "single-label"
								if len(rule) > 1 {
									kind = "multi-label"
								}
								r.Violate("C19/balancer/anti-affinity-violated:"+kind, fmt.Sprintf("new member %s agrees with %s on every label of strict rule %v", to, other, rule), wit)
							}
						}
					}
					nm := cur.Clone()
					nm.Ensemble = after
					statusRes.UpdateShardMetadata("ns", sw.Shard, nm)
				}
				a.Done()
				if !idle.Stop() {
					select {
					case <-idle.C:
					default:
					}
				}
				idle.Reset(300 * time.Millisecond)
			case <-idle.C:
				break drain
			}
		}
	}
	if len(proposals) > 0 {
		r.Nontrivial()
	}
	r.FP(len(in.Servers), rf, nShards, len(removed), strings.Join(proposals, ","))
	if idx < 2 {
		r.Sample(map[string]any{"servers": in.Servers, "removed": removed, "rf": rf, "shards": nShards, "rules": in.Rules, "proposals": proposals})
	}
	return r.Done()
}

func contains(l []string, s string) bool {
	for _, x := range l {
		if x == s {
			return true
		}
	}
	return false
}
