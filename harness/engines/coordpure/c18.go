package coordpure

import (
	"errors"
	"fmt"
	"math"
	"sort"
	"strings"

	"github.com/oxia-db/oxia/common/sharding"
	"github.com/oxia-db/oxia/coordinator/model"
	"github.com/oxia-db/oxia/coordinator/utils"

	"verif/lib/core"
)

func init() {
	core.Register(&core.Part{
		Name: "C18.generate", Prop: "C18",
		Cases:            func(tier string) int { return tierN(tier, 16, 64) },
		Run:              runC18Generate,
		Rule:             "GenerateShards(base, n): quick = every n in 1..4096 (sliced over the cases) + seeded n up to 2^18; thorough = every n in 1..16384 + seeded n up to 2^22; oracle: ranges sorted by min start at 0, end at 2^32-1, each next.min == prev.max+1, ids base..base+n-1; non-trivial = n >= 2; distinct = n",
		MinNontrivial:    func(tier string) int { return tierN(tier, 16, 64) },
		RequiredCounters: []string{"shard_counts_checked"},
	})
	core.Register(&core.Part{
		Name: "C18.changes", Prop: "C18",
		Cases: func(tier string) int { return tierN(tier, 30, 1000) },
		Run:   runC18Changes,
		Rule: "ApplyClusterChanges folded over 10..20 seeded config changes (add/remove/re-add namespaces with 1..64 shards, server list changes, RF 1..4 so that the real ensemble selector sometimes refuses); after every step each namespace without a deleting shard must partition [0,2^32-1] and no shard id is ever reused; " +
			"non-trivial = >= 1 namespace removed and >= 1 added after the first step; distinct = change sequence",
		MinNontrivial:    func(tier string) int { return tierN(tier, 15, 500) },
		RequiredCounters: []string{"steps", "namespaces_checked", "selection_refused"},
	})
}

type rng32 struct {
	Min, Max uint32
	Id       int64
}

// partitionClause checks that the ranges cover the hash space exactly once.
func partitionClause(rs []rng32) (string, string) {
	if len(rs) == 0 {
		return "empty", "no shards at all"
	}
	sort.Slice(rs, func(i, j int) bool { return rs[i].Min < rs[j].Min })
	if rs[0].Min != 0 {
		return "gap", fmt.Sprintf("first range starts at %d (shard %d)", rs[0].Min, rs[0].Id)
	}
	for i := range rs {
		if rs[i].Min > rs[i].Max {
			return "inverted", fmt.Sprintf("shard %d has min %d > max %d", rs[i].Id, rs[i].Min, rs[i].Max)
		}
		if i > 0 {
			prev := rs[i-1]
			if prev.Max == math.MaxUint32 || rs[i].Min <= prev.Max {
				return "overlap", fmt.Sprintf("shard %d [%d,%d] overlaps shard %d [%d,%d]", prev.Id, prev.Min, prev.Max, rs[i].Id, rs[i].Min, rs[i].Max)
			}
			if rs[i].Min != prev.Max+1 {
				return "gap", fmt.Sprintf("hashes %d..%d between shard %d and shard %d belong to no shard", uint64(prev.Max)+1, rs[i].Min-1, prev.Id, rs[i].Id)
			}
		}
	}
	if rs[len(rs)-1].Max != math.MaxUint32 {
		return "gap", fmt.Sprintf("last range ends at %d (shard %d)", rs[len(rs)-1].Max, rs[len(rs)-1].Id)
	}
	return "", ""
}

func checkGenerate(r *core.R, base int64, n uint32) {
	shards := sharding.GenerateShards(base, n)
	r.Count("shard_counts_checked", 1)
	class := "n<=65536"
	if n > 65536 {
		class = "n>65536"
	}
	if uint32(len(shards)) != n {
		r.Violate("C18/generate/count/"+class, fmt.Sprintf("GenerateShards(%d,%d) returned %d shards", base, n, len(shards)), nil)
		return
	}
	// the function emits shards in hash order: check sequentially (linear, no allocation)
	for i, s := range shards {
		if s.Id != base+int64(i) {
			r.Violate("C18/generate/ids/"+class, fmt.Sprintf("n=%d: shard #%d has id %d, want %d", n, i, s.Id, base+int64(i)), nil)
			return
		}
		var clause, detail string
		switch {
		case s.Min > s.Max:
			clause, detail = "inverted", fmt.Sprintf("shard #%d has min %d > max %d", i, s.Min, s.Max)
		case i == 0 && s.Min != 0:
			clause, detail = "gap", fmt.Sprintf("first range starts at %d", s.Min)
		case i > 0 && shards[i-1].Max == math.MaxUint32:
			clause, detail = "overlap", fmt.Sprintf("shard #%d follows a shard that already ends at 2^32-1", i)
		case i > 0 && s.Min <= shards[i-1].Max:
			clause, detail = "overlap", fmt.Sprintf("shard #%d [%d,%d] overlaps shard #%d [%d,%d]", i, s.Min, s.Max, i-1, shards[i-1].Min, shards[i-1].Max)
		case i > 0 && s.Min != shards[i-1].Max+1:
			clause, detail = "gap", fmt.Sprintf("hashes between shard #%d and #%d belong to no shard", i-1, i)
		case i == len(shards)-1 && s.Max != math.MaxUint32:
			clause, detail = "gap", fmt.Sprintf("last range ends at %d", s.Max)
		}
		if clause != "" {
			r.Violate("C18/generate/"+clause+"/"+class, fmt.Sprintf("GenerateShards(%d,%d): %s", base, n, detail), map[string]any{"base": base, "n": n})
			return
		}
	}
}

func runC18Generate(tier string, seed uint64, idx int) core.Result {
	r := core.NewR("C18.generate", idx)
	rng := core.CaseSeed(seed, "C18.generate", idx)
	cases := tierN(tier, 16, 64)
	upper := uint32(tierN(tier, 4096, 16384))
	for n := uint32(1 + idx); n <= upper; n += uint32(cases) {
		checkGenerate(r, rng.Int64N(1000), n)
	}
	sampled := tierN(tier, 100, 300)
	var ns []string
	for i := 0; i < sampled; i++ {
		maxN := uint32(65536)
		if i%4 == 0 {
			maxN = uint32(tierN(tier, 1<<18, 1<<22))
		}
		n := 1 + rng.Uint32N(maxN)
		checkGenerate(r, rng.Int64N(1<<40), n)
		if i < 5 {
			ns = append(ns, fmt.Sprint(n))
		}
	}
	r.Nontrivial()
	r.FP(idx, strings.Join(ns, ","))
	if idx == 0 {
		r.Sample(map[string]any{"exhaustive_n": fmt.Sprintf("%d,%d,..<=%d", 1+idx, 1+idx+cases, upper), "sampled_n": ns,
			"example_n3": sharding.GenerateShards(10, 3)})
	}
	return r.Done()
}

type cfgStep struct {
	Op      string `json:"op"`
	NS      string `json:"ns,omitempty"`
	Shards  uint32 `json:"shards,omitempty"`
	RF      uint32 `json:"rf,omitempty"`
	Servers int    `json:"servers,omitempty"`
}

func runC18Changes(tier string, seed uint64, idx int) core.Result {
	r := core.NewR("C18.changes", idx)
	rng := core.CaseSeed(seed, "C18.changes", idx)
	nServers := 1 + rng.IntN(5)
	mkServers := func(n int) []model.Server {
		var res []model.Server
		for i := 0; i < n; i++ {
			res = append(res, serverOf(fmt.Sprintf("s%d", i)))
		}
		return res
	}
	cfg := &model.ClusterConfig{Servers: mkServers(nServers)}
	status := model.NewClusterStatus()
	usedIds := map[int64]string{}
	names := []string{"a", "b", "c", "d"}
	var steps []cfgStep
	removedOnce, addedLater := false, false
	nSteps := 10 + rng.IntN(11)
	for step := 0; step < nSteps && r.Violations() == 0; step++ {
		var st cfgStep
		switch p := rng.IntN(10); {
		case p < 5:
			name := names[rng.IntN(len(names))]
			present := false
			for _, n := range cfg.Namespaces {
				if n.Name == name {
					present = true
				}
			}
			if present {
				continue
			}
			st = cfgStep{Op: "add-ns", NS: name, Shards: 1 + rng.Uint32N(64), RF: 1 + rng.Uint32N(4)}
			if rng.IntN(4) == 0 {
				st.Shards = []uint32{1, 2, 3, 5, 7, 16, 64}[rng.IntN(7)]
			}
			// at a random position: a change can then hold a namespace that is accepted in front of one that is refused
			at := rng.IntN(len(cfg.Namespaces) + 1)
			nsl := append([]model.NamespaceConfig{}, cfg.Namespaces[:at]...)
			nsl = append(nsl, model.NamespaceConfig{Name: name, InitialShardCount: st.Shards, ReplicationFactor: st.RF})
			cfg.Namespaces = append(nsl, cfg.Namespaces[at:]...)
			// sometimes a second namespace comes with the same change
			if rng.IntN(3) == 0 {
				for _, n2 := range names {
					present2 := n2 == name
					for _, n := range cfg.Namespaces {
						if n.Name == n2 {
							present2 = true
						}
					}
					if !present2 {
						at2 := rng.IntN(len(cfg.Namespaces) + 1)
						nsl2 := append([]model.NamespaceConfig{}, cfg.Namespaces[:at2]...)
						nsl2 = append(nsl2, model.NamespaceConfig{Name: n2, InitialShardCount: 1 + rng.Uint32N(8), ReplicationFactor: 1 + rng.Uint32N(4)})
						cfg.Namespaces = append(nsl2, cfg.Namespaces[at2:]...)
						st.Op = "add-2-ns"
						st.NS = name + "+" + n2
						break
					}
				}
			}
			if step > 0 {
				addedLater = true
			}
		case p < 8:
			if len(cfg.Namespaces) == 0 {
				continue
			}
			i := rng.IntN(len(cfg.Namespaces))
			st = cfgStep{Op: "remove-ns", NS: cfg.Namespaces[i].Name}
			cfg.Namespaces = append(append([]model.NamespaceConfig{}, cfg.Namespaces[:i]...), cfg.Namespaces[i+1:]...)
			removedOnce = true
		default:
			nServers = 1 + rng.IntN(5)
			cfg.Servers = mkServers(nServers)
			st = cfgStep{Op: "servers", Servers: nServers}
		}
		steps = append(steps, st)
		r.Count("steps", 1)

		supplier := func(nc *model.NamespaceConfig, editing *model.ClusterStatus) ([]model.Server, error) {
			in := selInput{RF: int(nc.ReplicationFactor), ServerIdx: editing.ServerIdx, Labels: map[string]map[string]string{}}
			for _, s := range cfg.Servers {
				in.Servers = append(in.Servers, s.GetIdentifier())
			}
			if in.RF > len(in.Servers) {
				// the real selector panics here (reported under C19); for the shard-map property what matters is that
				// the coordinator's supplier refuses, which is what it would do once that is repaired.
				r.Count("selection_refused", 1)
				return nil, errors.New("not enough servers")
			}
			esm, err, pm := runSelect(in)
			if pm != "" {
				return nil, errors.New("selector panicked: " + pm)
			}
			if err != nil {
				r.Count("selection_refused", 1)
				return nil, err
			}
			var res []model.Server
			for _, id := range esm {
				res = append(res, serverOf(id))
			}
			return res, nil
		}
		newStatus, toAdd, toDelete := utils.ApplyClusterChanges(cfg, status, supplier)
		wit := map[string]any{"steps": steps}
		for id, ns := range toAdd {
			if prev, used := usedIds[id]; used {
				r.Violate("C18/changes/shard-id-reused", fmt.Sprintf("shard id %d handed to namespace %s after being used by %s", id, ns, prev), wit)
			}
			usedIds[id] = ns
		}
		for name, nss := range newStatus.Namespaces {
			deleting := false
			var rs []rng32
			for id, sm := range nss.Shards {
				if sm.Status == model.ShardStatusDeleting {
					deleting = true
				}
				rs = append(rs, rng32{sm.Int32HashRange.Min, sm.Int32HashRange.Max, id})
				if _, known := usedIds[id]; !known {
					r.Violate("C18/changes/unannounced-shard", fmt.Sprintf("shard %d of %s appears without being in shardsToAdd", id, name), wit)
				}
			}
			if deleting {
				continue
			}
			r.Count("namespaces_checked", 1)
			if clause, detail := partitionClause(rs); clause != "" {
				why := "other"
				var nsCfg *model.NamespaceConfig
				for i := range cfg.Namespaces {
					if cfg.Namespaces[i].Name == name {
						nsCfg = &cfg.Namespaces[i]
					}
				}
				if nsCfg != nil && int(nsCfg.ReplicationFactor) > len(cfg.Servers) {
					why = "ensemble-selection-refused"
				}
				r.Violate("C18/changes/"+clause+"/"+why, fmt.Sprintf("namespace %s after step %d (%s): %s", name, step, core.JSON(st), detail), wit)
			}
		}
		// the coordinator drops deleting shards once the nodes confirmed; emulate for about half of them
		for _, id := range toDelete {
			if rng.IntN(2) == 0 {
				for name, nss := range newStatus.Namespaces {
					if _, ok := nss.Shards[id]; ok {
						delete(nss.Shards, id)
						if len(nss.Shards) == 0 {
							delete(newStatus.Namespaces, name)
						}
					}
				}
			}
		}
		// finish pending deletions of earlier steps too
		for name, nss := range newStatus.Namespaces {
			for id, sm := range nss.Shards {
				if sm.Status == model.ShardStatusDeleting && rng.IntN(3) == 0 {
					delete(nss.Shards, id)
				}
			}
			if len(nss.Shards) == 0 {
				delete(newStatus.Namespaces, name)
			}
		}
		status = newStatus
	}
	if removedOnce && addedLater {
		r.Nontrivial()
	}
	r.FP(core.JSON(steps))
	if idx < 2 {
		r.Sample(map[string]any{"steps": steps, "final_shard_id_generator": status.ShardIdGenerator})
	}
	return r.Done()
}
