// Package kvorder checks the hierarchical key order (comparator laws, engine contract) and that the
// storage engine honours it before and after flushes (C11).
package kvorder

import (
	"bytes"
	"fmt"
	"math/rand/v2"
	"os"
	"path/filepath"
	"sort"
	"strings"

	"github.com/oxia-db/oxia/common/compare"
	"github.com/oxia-db/oxia/server/kv"

	"verif/lib/core"
	"verif/lib/refmodel"
)

func tierN(tier string, quick, thorough int) int {
	if tier == "thorough" {
		return thorough
	}
	return quick
}

func init() {
	core.Register(&core.Part{
		Name: "C11.laws", Prop: "C11",
		Cases: func(tier string) int { return tierN(tier, 20, 500) },
		Run:   runLaws,
		Rule: "10k key tuples per case from an alphabet built around the comparator's special byte ('/', its neighbours '.' and '0', '-', \\x00, \\x01, \\xff, '%', '_'), depth 0..5, shared prefixes, lengths 0..40: total-order laws, cmp==0 iff bytes equal, agreement with an independent span-list implementation, " +
			"and the engine contract of the configured comparer: a <= Separator(a,b) < b, a <= Successor(a), AbbreviatedKey order-consistent, all evaluated in slash order on kv.OxiaSlashSpanComparer; non-trivial = tuples where both keys contain '/' at different depths; distinct = tuple set hash",
		MinNontrivial:    func(tier string) int { return tierN(tier, 20, 500) },
		RequiredCounters: []string{"pairs", "triples", "separator_checks"},
	})
	core.Register(&core.Part{
		Name: "C11.engine", Prop: "C11",
		Cases: func(tier string) int { return tierN(tier, 16, 150) },
		Run:   runEngine,
		Rule: "a data set (quick ~600 keys, thorough up to 5000; values 1B..20KB so that it spans tens of 64KiB blocks) is loaded into the real Pebble-backed kv.KV; then every stored key must be found by an exact get and, for probe keys (stored keys, their neighbours, random keys), floor/ceiling/lower/higher, list and range-scan must equal a reference sorted with the independent order; " +
			"checked before a flush, after Flush() and after overwrites + a second flush; non-trivial = data set spans > 4 blocks and has keys with '.' and '/' at several depths; distinct = data-set hash",
		MinNontrivial:    func(tier string) int { return tierN(tier, 4, 60) },
		RequiredCounters: []string{"exact_gets", "comparison_gets", "range_scans", "flushes"},
		CaseTimeoutS:     180,
	})
}

var alphabet = []byte{'/', '/', '/', '.', '0', '-', 'a', 'b', 'z', 0x00, 0x01, 0xff, '%', '_', '~', 'A'}

func genKey(rng *rand.Rand, pool []string) string {
	if len(pool) > 0 && rng.IntN(3) == 0 {
		// extend or mutate an existing key: shared prefixes
		base := pool[rng.IntN(len(pool))]
		switch rng.IntN(4) {
		case 0:
			return base + string(alphabet[rng.IntN(len(alphabet))])
		case 1:
			if len(base) > 0 {
				return base[:rng.IntN(len(base))]
			}
		case 2:
			return base + "/" + string(alphabet[rng.IntN(len(alphabet))])
		default:
			if len(base) > 0 {
				b := []byte(base)
				b[rng.IntN(len(b))] = alphabet[rng.IntN(len(alphabet))]
				return string(b)
			}
		}
	}
	n := rng.IntN(12)
	if rng.IntN(8) == 0 {
		n = rng.IntN(41)
	}
	b := make([]byte, n)
	for i := range b {
		b[i] = alphabet[rng.IntN(len(alphabet))]
	}
	return string(b)
}

func sign(x int) int {
	switch {
	case x < 0:
		return -1
	case x > 0:
		return 1
	}
	return 0
}

func runLaws(tier string, seed uint64, idx int) core.Result {
	r := core.NewR("C11.laws", idx)
	rng := core.CaseSeed(seed, "C11.laws", idx)
	cmp := compare.CompareWithSlash
	comparer := kv.OxiaSlashSpanComparer
	var pool []string
	nontrivial := 0
	var fp []string
	for i := 0; i < 10000 && r.Violations() == 0; i++ {
		a, b, c := genKey(rng, pool), genKey(rng, pool), genKey(rng, pool)
		if len(pool) < 200 {
			pool = append(pool, a, b)
		} else {
			pool[rng.IntN(len(pool))] = a
		}
		ab, ba := sign(cmp([]byte(a), []byte(b))), sign(cmp([]byte(b), []byte(a)))
		r.Count("pairs", 1)
		wit := map[string]any{"a": a, "b": b, "c": c}
		if ab != -ba {
			r.Violate("C11/law/antisymmetry", fmt.Sprintf("cmp(%q,%q)=%d but cmp(b,a)=%d", a, b, ab, ba), wit)
		}
		if (ab == 0) != (a == b) {
			r.Violate("C11/law/equality", fmt.Sprintf("cmp(%q,%q)=%d, bytes equal=%v", a, b, ab, a == b), wit)
		}
		if ref := sign(refmodel.SlashCmp(a, b)); ref != ab {
			r.Violate("C11/law/disagrees-with-span-order", fmt.Sprintf("cmp(%q,%q)=%d, independent span-list order says %d", a, b, ab, ref), wit)
		}
		if sign(cmp([]byte(a), []byte(a))) != 0 {
			r.Violate("C11/law/irreflexive", fmt.Sprintf("cmp(%q,%q)!=0", a, a), wit)
		}
		bc, ac := sign(cmp([]byte(b), []byte(c))), sign(cmp([]byte(a), []byte(c)))
		r.Count("triples", 1)
		if ab <= 0 && bc <= 0 && ac > 0 {
			r.Violate("C11/law/transitivity", fmt.Sprintf("%q <= %q <= %q but cmp(a,c)=%d", a, b, c, ac), wit)
		}
		// engine contract of the configured comparer
		lo, hi := a, b
		if ab > 0 {
			lo, hi = b, a
		}
		if ab != 0 {
			sep := comparer.Separator(nil, []byte(lo), []byte(hi))
			r.Count("separator_checks", 1)
			if cmp([]byte(lo), sep) > 0 || cmp(sep, []byte(hi)) >= 0 {
				kind := "other"
				if strings.Contains(lo, "/") || strings.Contains(hi, "/") {
					kind = "keys-with-slash"
				}
				r.Violate("C11/engine-contract/separator/"+kind, fmt.Sprintf("Separator(%q,%q)=%q is not in [a,b) in slash order", lo, hi, sep), wit)
			}
		}
		succ := comparer.Successor(nil, []byte(a))
		if cmp([]byte(a), succ) > 0 {
			r.Violate("C11/engine-contract/successor", fmt.Sprintf("Successor(%q)=%q sorts before its argument in slash order", a, succ), wit)
		}
		if comparer.AbbreviatedKey != nil {
			ka, kb := comparer.AbbreviatedKey([]byte(a)), comparer.AbbreviatedKey([]byte(b))
			if (ka < kb && ab > 0) || (ka > kb && ab < 0) {
				r.Violate("C11/engine-contract/abbreviated-key", fmt.Sprintf("AbbreviatedKey(%q)=%x vs AbbreviatedKey(%q)=%x contradicts cmp=%d", a, ka, b, kb, ab), wit)
			}
		}
		if !comparer.Equal([]byte(a), []byte(b)) != (ab != 0) {
			r.Violate("C11/engine-contract/equal", fmt.Sprintf("Equal(%q,%q) disagrees with cmp=%d", a, b, ab), wit)
		}
		if strings.Count(a, "/") != strings.Count(b, "/") && strings.Contains(a, "/") && strings.Contains(b, "/") {
			nontrivial++
		}
		if i < 3 {
			fp = append(fp, a, b, c)
		}
	}
	if nontrivial > 0 {
		r.Nontrivial()
	}
	r.Count("pairs_at_different_depths", int64(nontrivial))
	r.FP(idx, strings.Join(fp, "|"))
	if idx == 0 {
		r.Sample(map[string]any{"tuples": []string{fmt.Sprintf("%q", fp)}})
	}
	return r.Done()
}

// ---- engine ----

type dataset struct {
	keys   []string          // sorted in the independent order
	values map[string][]byte // current value
}

func (d *dataset) sortKeys() {
	d.keys = d.keys[:0]
	for k := range d.values {
		d.keys = append(d.keys, k)
	}
	sort.Slice(d.keys, func(i, j int) bool { return refmodel.SlashCmp(d.keys[i], d.keys[j]) < 0 })
}

// hierKey produces a realistic hierarchical key; the alphabet deliberately contains '.', '-', '0' next to '/'.
func hierKey(rng *rand.Rand) string {
	spans := []string{"a", "b", "ab", "a.b", "a.", "a0", "a-b", "x.y", "x", "x0", "svc", "svc.cfg", "ns", "ns.1", "0", "%2F", "_", "zz"}
	depth := 1 + rng.IntN(4)
	var parts []string
	for i := 0; i < depth; i++ {
		s := spans[rng.IntN(len(spans))]
		if rng.IntN(3) == 0 {
			s += fmt.Sprintf("%d", rng.IntN(50))
		}
		if rng.IntN(6) == 0 {
			s += "." + spans[rng.IntN(len(spans))]
		}
		parts = append(parts, s)
	}
	return strings.Join(parts, "/")
}

func runEngine(tier string, seed uint64, idx int) core.Result {
	r := core.NewR("C11.engine", idx)
	rng := core.CaseSeed(seed, "C11.engine", idx)
	dir, err := os.MkdirTemp("", "c11-")
	if err != nil {
		r.Inconclusive(err.Error())
		return r.Done()
	}
	defer os.RemoveAll(dir)
	f, err := kv.NewPebbleKVFactory(&kv.FactoryOptions{DataDir: filepath.Join(dir, "db"), CacheSizeMB: 16})
	if err != nil {
		r.Inconclusive(err.Error())
		return r.Done()
	}
	defer f.Close()
	k, err := f.NewKV("default", 0)
	if err != nil {
		r.Inconclusive(err.Error())
		return r.Done()
	}
	defer k.Close()

	nKeys := 300 + rng.IntN(600)
	if tier == "thorough" && rng.IntN(3) == 0 {
		nKeys = 1000 + rng.IntN(4000)
	}
	if idx%6 == 5 {
		nKeys = 1 + rng.IntN(20) // tiny data sets too
	}
	maxVal := []int{1, 200, 4000, 8000, 8000, 20000, 20000}[rng.IntN(7)]
	if nKeys > 1500 && maxVal > 8000 {
		maxVal = 8000
	}
	ds := &dataset{values: map[string][]byte{}}
	total := 0
	put := func(keys []string) error {
		wb := k.NewWriteBatch()
		for _, key := range keys {
			n := 1 + rng.IntN(maxVal)
			v := make([]byte, n)
			for i := 0; i < n && i < 16; i++ {
				v[i] = byte(rng.Uint32())
			}
			if err := wb.Put(key, v); err != nil {
				return err
			}
			ds.values[key] = v
			total += n
		}
		if err := wb.Commit(); err != nil {
			return err
		}
		return wb.Close()
	}
	var batch []string
	hasDot, depths := false, map[int]bool{}
	for len(ds.values)+len(batch) < nKeys {
		key := hierKey(rng)
		if rng.IntN(10) == 0 {
			key = genKey(rng, nil)
			if key == "" {
				continue
			}
		}
		if strings.Contains(key, ".") {
			hasDot = true
		}
		depths[strings.Count(key, "/")] = true
		batch = append(batch, key)
		if len(batch) >= 64 {
			if err := put(batch); err != nil {
				r.Violate("C11/engine/write-error", err.Error(), nil)
				return r.Done()
			}
			batch = nil
		}
	}
	if err := put(batch); err != nil {
		r.Violate("C11/engine/write-error", err.Error(), nil)
		return r.Done()
	}
	ds.sortKeys()

	phase := "before-flush"
	check := func() bool {
		wit := map[string]any{"keys": len(ds.keys), "bytes": total, "phase": phase}
		// 1. every stored key is found by an exact get
		for _, key := range ds.keys {
			_, v, closer, err := k.Get(key, kv.ComparisonEqual)
			r.Count("exact_gets", 1)
			if err != nil {
				cls := "plain"
				if strings.Contains(key, ".") || strings.Contains(key, "-") {
					cls = "key-with-byte-below-slash"
				}
				r.Violate("C11/engine/get-miss/"+phase+"/"+cls, fmt.Sprintf("stored key %q not found by exact get (%v); data set: %d keys, %d bytes", key, err, len(ds.keys), total), wit)
				return false
			}
			if !bytes.Equal(v, ds.values[key]) {
				_ = closer.Close()
				r.Violate("C11/engine/get-wrong-value/"+phase, fmt.Sprintf("exact get of %q returned another value", key), wit)
				return false
			}
			_ = closer.Close()
		}
		// 2. comparison gets on probes
		probes := []string{}
		for i := 0; i < 150; i++ {
			p := ds.keys[rng.IntN(len(ds.keys))]
			switch rng.IntN(5) {
			case 0:
				p += "/"
			case 1:
				p += "."
			case 2:
				if len(p) > 0 {
					p = p[:len(p)-1]
				}
			case 3:
				p = hierKey(rng)
			}
			probes = append(probes, p)
		}
		probes = append(probes, "", "/", "\xff\xff/\xff", ds.keys[0], ds.keys[len(ds.keys)-1])
		for _, p := range probes {
			// reference positions
			i := sort.Search(len(ds.keys), func(i int) bool { return refmodel.SlashCmp(ds.keys[i], p) >= 0 }) // first >= p
			exact := i < len(ds.keys) && ds.keys[i] == p
			want := map[kv.ComparisonType]string{}
			if exact {
				want[kv.ComparisonFloor], want[kv.ComparisonCeiling] = p, p
			} else {
				if i > 0 {
					want[kv.ComparisonFloor] = ds.keys[i-1]
				}
				if i < len(ds.keys) {
					want[kv.ComparisonCeiling] = ds.keys[i]
				}
			}
			if i > 0 {
				want[kv.ComparisonLower] = ds.keys[i-1]
			}
			hi := i
			if exact {
				hi = i + 1
			}
			if hi < len(ds.keys) {
				want[kv.ComparisonHigher] = ds.keys[hi]
			}
			for _, ct := range []kv.ComparisonType{kv.ComparisonFloor, kv.ComparisonCeiling, kv.ComparisonLower, kv.ComparisonHigher} {
				if p == "" && (ct == kv.ComparisonCeiling || ct == kv.ComparisonHigher || ct == kv.ComparisonFloor || ct == kv.ComparisonLower) {
					continue // an empty bound means "unbounded" for the engine iterators
				}
				gk, _, closer, err := k.Get(p, ct)
				r.Count("comparison_gets", 1)
				w, has := want[ct]
				name := []string{"equal", "floor", "ceiling", "lower", "higher"}[ct]
				if err != nil {
					if has {
						r.Violate("C11/engine/"+name+"-miss/"+phase, fmt.Sprintf("%s(%q) found nothing, reference says %q", name, p, w), wit)
						return false
					}
					continue
				}
				_ = closer.Close()
				if !has || gk != w {
					r.Violate("C11/engine/"+name+"-wrong/"+phase, fmt.Sprintf("%s(%q) returned %q, reference says %q (present=%v)", name, p, gk, w, has), wit)
					return false
				}
			}
		}
		// 3. range scans / key scans
		for i := 0; i < 25; i++ {
			a, b := probes[rng.IntN(len(probes))], probes[rng.IntN(len(probes))]
			if a == "" || b == "" {
				continue
			}
			if refmodel.SlashCmp(a, b) > 0 {
				a, b = b, a
			}
			var want []string
			for _, key := range ds.keys {
				if refmodel.SlashCmp(key, a) >= 0 && refmodel.SlashCmp(key, b) < 0 {
					want = append(want, key)
				}
			}
			it, err := k.KeyRangeScan(a, b)
			if err != nil {
				r.Violate("C11/engine/scan-error", err.Error(), wit)
				return false
			}
			var got []string
			for ; it.Valid(); it.Next() {
				got = append(got, it.Key())
			}
			_ = it.Close()
			r.Count("range_scans", 1)
			if strings.Join(got, "\x00") != strings.Join(want, "\x00") {
				r.Violate("C11/engine/scan-mismatch/"+phase, fmt.Sprintf("scan [%q,%q) returned %d keys, reference says %d (first difference at %s)", a, b, len(got), len(want), firstDiff(got, want)), wit)
				return false
			}
			// reverse scan gives the last key of the range first
			rit, err := k.KeyRangeScanReverse(a, b)
			if err == nil {
				if rit.Valid() {
					if len(want) == 0 || rit.Key() != want[len(want)-1] {
						r.Violate("C11/engine/reverse-scan-mismatch/"+phase, fmt.Sprintf("reverse scan [%q,%q) starts at %q, reference says %v", a, b, rit.Key(), want), wit)
						_ = rit.Close()
						return false
					}
				} else if len(want) > 0 {
					r.Violate("C11/engine/reverse-scan-mismatch/"+phase, fmt.Sprintf("reverse scan [%q,%q) is empty, reference has %d keys", a, b, len(want)), wit)
					_ = rit.Close()
					return false
				}
				_ = rit.Close()
			}
		}
		return true
	}
	if !check() {
		return finishEngine(r, ds, total, hasDot, depths, idx)
	}
	phase = "after-flush"
	if err := k.Flush(); err != nil {
		r.Violate("C11/engine/flush-error", err.Error(), nil)
		return r.Done()
	}
	r.Count("flushes", 1)
	if !check() {
		return finishEngine(r, ds, total, hasDot, depths, idx)
	}
	// overwrite a third, delete a few, add some, flush again (forces a second table / compaction)
	var over []string
	for _, key := range ds.keys {
		if rng.IntN(3) == 0 {
			over = append(over, key)
		}
	}
	for i := 0; i < len(ds.keys)/10+1; i++ {
		over = append(over, hierKey(rng))
	}
	for i := 0; i < len(over); i += 64 {
		end := i + 64
		if end > len(over) {
			end = len(over)
		}
		if err := put(over[i:end]); err != nil {
			r.Violate("C11/engine/write-error", err.Error(), nil)
			return r.Done()
		}
	}
	wb := k.NewWriteBatch()
	for i := 0; i < len(ds.keys)/20; i++ {
		key := ds.keys[rng.IntN(len(ds.keys))]
		if _, ok := ds.values[key]; ok {
			_ = wb.Delete(key)
			delete(ds.values, key)
		}
	}
	_ = wb.Commit()
	_ = wb.Close()
	ds.sortKeys()
	phase = "after-overwrite"
	if !check() {
		return finishEngine(r, ds, total, hasDot, depths, idx)
	}
	phase = "after-second-flush"
	if err := k.Flush(); err != nil {
		r.Violate("C11/engine/flush-error", err.Error(), nil)
		return r.Done()
	}
	r.Count("flushes", 1)
	check()
	return finishEngine(r, ds, total, hasDot, depths, idx)
}

func firstDiff(got, want []string) string {
	for i := 0; i < len(got) && i < len(want); i++ {
		if got[i] != want[i] {
			return fmt.Sprintf("index %d: got %q want %q", i, got[i], want[i])
		}
	}
	return fmt.Sprintf("length %d vs %d", len(got), len(want))
}

func finishEngine(r *core.R, ds *dataset, total int, hasDot bool, depths map[int]bool, idx int) core.Result {
	r.Max("max:dataset_bytes", int64(total))
	r.Max("max:dataset_keys", int64(len(ds.keys)))
	if total > 4*64*1024 && hasDot && len(depths) >= 3 {
		r.Nontrivial()
		r.Count("datasets_spanning_many_blocks", 1)
	}
	h := ""
	if len(ds.keys) > 0 {
		h = core.Hash(strings.Join(ds.keys, "\x00"))
	}
	r.FP(len(ds.keys), total, h)
	if idx < 2 {
		n := len(ds.keys)
		if n > 8 {
			n = 8
		}
		r.Sample(map[string]any{"keys": len(ds.keys), "bytes": total, "first_keys": ds.keys[:n]})
	}
	return r.Done()
}
