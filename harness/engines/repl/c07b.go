package repl

import (
	"context"
	"fmt"
	"slices"
	"sync"
	"time"

	pb "google.golang.org/protobuf/proto"

	"github.com/oxia-db/oxia/common/concurrent"
	"github.com/oxia-db/oxia/common/vhook"
	"github.com/oxia-db/oxia/proto"
	"github.com/oxia-db/oxia/server/kv"

	"verif/lib/core"
	rc "verif/lib/replcluster"
	"verif/lib/shard"
)

// C07 outside the RF=1 leader: what a follower applies when it catches up several entries in one round, what a
// follower's database holds after a crash in that situation, and what an election that never reaches its quorum
// leaves in the database of the node that was going to lead.

func init() {
	core.Register(&core.Part{
		Name: "C07.followers", Prop: "C07", Race: true,
		Cases: func(tier string) int { return tierN(tier, 20, 400) },
		Run:   runC07Followers,
		Rule: "3 real nodes: k committed writes; one follower stops hearing from the leader while m more writes commit, then catches up several entries in one apply round, is crashed to its flushed database image at a seeded moment and replays; then both followers are cut off, u writes are appended to the leader's log and stay uncommitted, every node is fenced and the old leader (longest log) is told to lead again while it cannot reach a quorum (the request is abandoned after 300 ms); then the other two elect a leader, the old one re-joins and is truncated, v more writes commit; " +
			"oracle: on every database instance the applied offsets are consecutive (hook db.apply.before); the commit offset stored in a node's database never exceeds the end of that node's log nor the highest offset any leader has committed (hook qat.commit); after the abandoned election the old leader's database has applied nothing beyond the committed prefix; at the end all replicas at the same applied offset hold the same decoded dump; " +
			"non-trivial = a follower applied >= 3 entries in one round and the abandoned election happened with >= 1 uncommitted entry; distinct = (k, m, u, v, crash point)",
		MinNontrivial:    func(tier string) int { return tierN(tier, 8, 160) },
		RequiredCounters: []string{"apply_events", "abandoned_elections", "follower_crash_restarts", "replica_dumps_compared"},
		CaseTimeoutS:     180,
	})
}

func runC07Followers(tier string, seed uint64, idx int) core.Result {
	r := core.NewR("C07.followers", idx)
	rng := core.CaseSeed(seed, "C07.followers", idx)
	vhook.Clear()
	defer vhook.Clear()
	c, leaderName, cleanup, ok := newCluster(r, 3, 1<<20, true)
	if !ok {
		return r.Done()
	}
	defer cleanup()
	var mu sync.Mutex
	last := map[any]int64{}
	maxCommit := int64(-1)
	vhook.Set("qat.commit", func(_ string, args ...any) {
		if len(args) >= 2 {
			if v, ok := args[1].(int64); ok {
				mu.Lock()
				if v > maxCommit {
					maxCommit = v
				}
				mu.Unlock()
			}
		}
	})
	nodeOf := func(k any) string {
		for _, n := range c.Nodes {
			if x := n.KV(); x != nil && any(x) == k {
				return n.Name
			}
		}
		return "?"
	}
	round := map[any]int{} // entries applied back to back on one instance (a rough "round" length)
	vhook.Set("db.apply.before", func(_ string, args ...any) {
		if len(args) < 2 {
			return
		}
		off, _ := args[1].(int64)
		mu.Lock()
		prev, seen := last[args[0]]
		last[args[0]] = off
		mc := maxCommit
		mu.Unlock()
		if !seen {
			if k, ok := args[0].(kv.KV); ok {
				if stored, ok2 := storedCommitOffset(k); ok2 {
					prev, seen = stored, true
				}
			}
		}
		r.Count("apply_events", 1)
		if seen && off != prev+1 {
			kind := "skipped"
			if off <= prev {
				kind = "repeated-or-out-of-order"
			}
			r.Violate("C07/apply-not-consecutive/"+kind, fmt.Sprintf("database of %s applied (stored commit offset) %d right after %d", nodeOf(args[0]), off, prev), nil)
		}
		if off > mc {
			r.Violate("C07/applied-an-entry-that-no-leader-had-committed", fmt.Sprintf("database of %s applies offset %d while the highest offset committed by any leader so far is %d", nodeOf(args[0]), off, mc), nil)
		}
	})
	lc, err := c.Node(leaderName).Leader()
	if err != nil {
		r.Inconclusive(err.Error())
		return r.Done()
	}
	seq := 0
	mkReq := func() *proto.WriteRequest {
		seq++
		return &proto.WriteRequest{Shard: pb.Int64(0), Puts: []*proto.PutRequest{{Key: fmt.Sprintf("k%d", seq%11), Value: []byte(fmt.Sprintf("v%d", seq)),
			SecondaryIndexes: []*proto.SecondaryIndex{{IndexName: "ix", SecondaryKey: fmt.Sprintf("s%d", seq%5)}}}}}
	}
	commit := func(n int) bool {
		for i := 0; i < n; i++ {
			ctx, cancel := context.WithTimeout(context.Background(), 15*time.Second)
			_, err := lc.WriteBlock(ctx, mkReq())
			cancel()
			if err != nil {
				r.Inconclusive("write failed: " + scrubErr(err))
				return false
			}
		}
		return true
	}
	logEnd := func(n *rc.Node) int64 {
		if w := n.Wal(); w != nil {
			return w.LastOffset()
		}
		return -1
	}
	checkStored := func(where string) {
		mu.Lock()
		mc := maxCommit
		mu.Unlock()
		for _, n := range c.Nodes {
			a := n.AppliedOffset()
			if a > logEnd(n) && logEnd(n) >= 0 {
				r.Violate("C07/stored-commit-offset-beyond-the-log/"+where, fmt.Sprintf("%s: database says offset %d is applied, its log ends at %d", n.Name, a, logEnd(n)), nil)
			}
			if a > mc {
				r.Violate("C07/stored-commit-offset-beyond-any-commit/"+where, fmt.Sprintf("%s: database says offset %d is applied, the highest committed offset is %d", n.Name, a, mc), nil)
			}
		}
	}
	k, m, u, v := 2+rng.IntN(8), 3+rng.IntN(10), 1+rng.IntN(5), 2+rng.IntN(6)
	if !commit(k) {
		return r.Done()
	}
	// one follower lags, then catches up several entries at once
	lag := "n2"
	c.Link(leaderName, lag).SetStalled(true)
	if !commit(m) {
		return r.Done()
	}
	before := c.Node(lag).AppliedOffset()
	c.Link(leaderName, lag).SetStalled(false)
	crashAfter := rng.IntN(3) // 0: no crash, 1: crash while it catches up, 2: crash after it caught up
	if crashAfter == 1 {
		time.Sleep(time.Duration(rng.IntN(2000)) * time.Microsecond)
		if err := c.Node(lag).Crash(); err == nil {
			r.Count("follower_crash_restarts", 1)
		}
	}
	if !commit(1) {
		return r.Done()
	}
	waitApplied := func(n *rc.Node, upTo int64) bool {
		for dl := time.Now().Add(15 * time.Second); time.Now().Before(dl); {
			if n.AppliedOffset() >= upTo {
				return true
			}
			time.Sleep(time.Millisecond)
		}
		return false
	}
	if crashAfter == 1 {
		// the crashed follower has no controller until the leader's cursor reaches it again: re-attach it through an election
		heads := c.Fence(2, c.Nodes)
		if len(heads) == 3 {
			_ = c.Install(2, leaderName, 3, heads)
			if lc, err = c.Node(leaderName).Leader(); err != nil {
				r.Inconclusive(err.Error())
				return r.Done()
			}
		}
	}
	head := logEnd(c.Node(leaderName))
	if !commit(1) {
		return r.Done()
	}
	if !waitApplied(c.Node(lag), head) {
		r.Inconclusive("the lagging follower did not catch up")
		return r.Done()
	}
	if caught := c.Node(lag).AppliedOffset() - before; caught >= 3 {
		round[lag] = int(caught)
	}
	if crashAfter == 2 {
		if err := c.Node(lag).Crash(); err == nil {
			r.Count("follower_crash_restarts", 1)
		}
	}
	checkStored("after-catch-up")
	// both followers cut off; an uncommitted tail on the leader; fence everybody; the old leader is asked to lead and cannot
	term := int64(3)
	committedEnd := logEnd(c.Node(leaderName))
	if !waitApplied(c.Node(leaderName), committedEnd) {
		r.Inconclusive("leader did not apply its committed prefix")
		return r.Done()
	}
	for _, n := range c.Nodes {
		if n.Name != leaderName {
			c.Link(leaderName, n.Name).SetStalled(true)
		}
	}
	for i := 0; i < u; i++ {
		lc.Write(context.Background(), mkReq(), concurrent.NewOnce(func(*proto.WriteResponse) {}, func(error) {}))
	}
	for dl := time.Now().Add(5 * time.Second); logEnd(c.Node(leaderName)) < committedEnd+int64(u) && time.Now().Before(dl); {
		time.Sleep(200 * time.Microsecond)
	}
	heads := c.Fence(term, c.Nodes)
	if len(heads) != 3 {
		r.Inconclusive("fence failed")
		return r.Done()
	}
	tail := heads[leaderName].Offset - committedEnd
	fm := map[string]*proto.EntryId{}
	for n, h := range heads {
		if n != leaderName {
			fm[n] = &proto.EntryId{Term: h.Term, Offset: h.Offset}
		}
	}
	ctx, cancel := context.WithTimeout(context.Background(), 300*time.Millisecond)
	_, berr := c.Node(leaderName).BecomeLeader(ctx, &proto.BecomeLeaderRequest{Namespace: rc.Namespace, Shard: 0, Term: term, ReplicationFactor: 3, FollowerMaps: fm})
	cancel()
	if berr == nil {
		r.Inconclusive("the election completed although the followers are cut off")
		return r.Done()
	}
	r.Count("abandoned_elections", 1)
	if a := c.Node(leaderName).AppliedOffset(); a > committedEnd {
		r.Violate("C07/applied-an-uncommitted-entry/abandoned-election", fmt.Sprintf("%s was told to lead term %d with %d uncommitted entries (committed prefix ends at %d) and could not reach a quorum; its database has applied up to offset %d", leaderName, term, tail, committedEnd, a), nil)
		return r.Done()
	}
	checkStored("after-abandoned-election")
	// the other two carry on; the old leader re-joins (its tail is cut)
	for _, n := range c.Nodes {
		c.Link(leaderName, n.Name).SetStalled(false)
	}
	term++
	var others []*rc.Node
	for _, n := range c.Nodes {
		if n.Name != leaderName {
			others = append(others, n)
		}
	}
	h2 := c.Fence(term, others)
	if len(h2) != 2 {
		r.Inconclusive("fence of the other two failed")
		return r.Done()
	}
	best := rc.PickLeader(h2)
	old := leaderName
	leaderName = best[0]
	if err := c.Install(term, leaderName, 3, h2); err != nil {
		r.Inconclusive("install: " + scrubErr(err))
		return r.Done()
	}
	if lc, err = c.Node(leaderName).Leader(); err != nil {
		r.Inconclusive(err.Error())
		return r.Done()
	}
	if err := c.Rejoin(term, leaderName, c.Node(old)); err != nil {
		r.Inconclusive("rejoin: " + scrubErr(err))
		return r.Done()
	}
	if !commit(v) {
		return r.Done()
	}
	head = logEnd(c.Node(leaderName))
	if !commit(1) {
		return r.Done()
	}
	for _, n := range c.Nodes {
		if !waitApplied(n, head) {
			r.Inconclusive(n.Name + " did not catch up at the end")
			return r.Done()
		}
	}
	checkStored("at-the-end")
	if idx%2 == 1 {
		// a follower loses its disk, is rebuilt from a snapshot (its log then starts above 0), receives a few more
		// entries, crashes back to what its database had flushed, restarts and is elected: its replay must resume
		// right after the commit offset its database carries
		victim := old
		vn := c.Node(victim)
		if err := vn.Wipe(); err != nil {
			r.Inconclusive(err.Error())
			return r.Done()
		}
		term++
		h3 := c.Fence(term, c.Nodes)
		if len(h3) != 3 {
			r.Inconclusive("fence before the snapshot failed")
			return r.Done()
		}
		if err := c.Install(term, leaderName, 3, h3); err != nil {
			r.Inconclusive("install: " + scrubErr(err))
			return r.Done()
		}
		if lc, err = c.Node(leaderName).Leader(); err != nil {
			r.Inconclusive(err.Error())
			return r.Done()
		}
		if !commit(2 + rng.IntN(4)) {
			return r.Done()
		}
		head = logEnd(c.Node(leaderName))
		if !waitApplied(vn, head) {
			r.Inconclusive("the rebuilt follower did not catch up")
			return r.Done()
		}
		first := int64(-1)
		if w := vn.Wal(); w != nil {
			first = w.FirstOffset()
		}
		if err := vn.Crash(); err != nil {
			r.Inconclusive("crash: " + err.Error())
			return r.Done()
		}
		term++
		h4 := c.Fence(term, c.Nodes)
		if len(h4) != 3 {
			r.Inconclusive("fence before electing the rebuilt node failed")
			return r.Done()
		}
		// (the node's database is open again now that it has been fenced)
		if a := vn.AppliedOffset(); first > 0 && a < head {
			r.Count("nodes_rebuilt_from_a_snapshot_crashed_back_below_their_log_end", 1)
			switch {
			case a == first-1:
				r.Count("crash_images_ending_right_before_the_first_log_entry", 1)
			case a < first-1:
				r.Count("crash_images_ending_before_the_first_log_entry_minus_one", 1)
			default:
				r.Count("crash_images_ending_inside_the_log", 1)
			}
			if idx < 6 {
				r.Sample(map[string]any{"rebuilt_node_log_first": first, "crash_image_commit": a, "log_end": head})
			}
		}
		if best := rc.PickLeader(h4); !slices.Contains(best, victim) {
			r.Inconclusive("the rebuilt node does not have a maximal head")
			return r.Done()
		}
		if err := c.Install(term, victim, 3, h4); err != nil {
			r.Inconclusive("install of the rebuilt node: " + scrubErr(err))
			return r.Done()
		}
		leaderName = victim
		if lc, err = c.Node(leaderName).Leader(); err != nil {
			r.Inconclusive(err.Error())
			return r.Done()
		}
		r.Count("rebuilt_nodes_elected_after_a_crash", 1)
		if !commit(2) {
			return r.Done()
		}
		head = logEnd(c.Node(leaderName))
		if !commit(1) {
			return r.Done()
		}
		for _, n := range c.Nodes {
			if !waitApplied(n, head) {
				r.Inconclusive(n.Name + " did not catch up after the rebuilt node was elected")
				return r.Done()
			}
		}
		checkStored("after-electing-a-node-rebuilt-from-a-snapshot")
	}
	// dumps at equal applied offsets
	type rep struct {
		name string
		at   int64
		d    map[string]string
	}
	var reps []rep
	for _, n := range c.Nodes {
		for try := 0; ; try++ {
			at := n.AppliedOffset()
			d, err := shard.CanonicalDump(n.KV())
			if err != nil {
				r.Inconclusive("dump: " + err.Error())
				return r.Done()
			}
			if n.AppliedOffset() == at {
				reps = append(reps, rep{n.Name, at, d})
				break
			}
			if try > 50 {
				r.Inconclusive("a replica kept applying while it was dumped")
				return r.Done()
			}
			time.Sleep(2 * time.Millisecond)
		}
	}
	for i := range reps {
		for j := i + 1; j < len(reps); j++ {
			if reps[i].at != reps[j].at {
				continue
			}
			r.Count("replica_dumps_compared", 1)
			if diff := shard.DiffDumps(reps[i].d, reps[j].d); diff != "" {
				r.Violate("C07/replica-state-differs-at-the-same-applied-offset", fmt.Sprintf("%s vs %s at applied offset %d (crash point %d, abandoned election with %d uncommitted entries): %s", reps[i].name, reps[j].name, reps[i].at, crashAfter, tail, diff), nil)
			}
		}
	}
	if len(round) > 0 && tail >= 1 {
		r.Nontrivial()
	}
	r.FP(k, m, u, v, crashAfter)
	if idx < 2 {
		r.Sample(map[string]any{"committed_first": k, "while_a_follower_lags": m, "uncommitted_at_the_election": u, "after": v, "follower_crash_point": crashAfter})
	}
	return r.Done()
}
