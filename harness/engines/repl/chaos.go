package repl

import (
	"context"
	"errors"
	"fmt"
	"math/rand/v2"
	"os"
	"runtime"
	"sort"
	"strings"
	"sync"
	"sync/atomic"
	"time"

	pb "google.golang.org/protobuf/proto"

	"github.com/oxia-db/oxia/common/concurrent"
	"github.com/oxia-db/oxia/common/vhook"
	"github.com/oxia-db/oxia/proto"
	"github.com/oxia-db/oxia/server/kv"
	"github.com/oxia-db/oxia/server/wal"

	"verif/lib/core"
	rc "verif/lib/replcluster"
	"verif/lib/shard"
)

// chaos is a seeded schedule of writes, link faults, restarts and elections on a real replication group,
// with the harness in the coordinator's role. Monitors for C03/C04/C06 watch it.
type chaos struct {
	clusterLogDivergence string // class of the first divergence found between a replica's log and the leader's
	prop                 string
	r                    *core.R
	rng                  *rand.Rand
	c                    *rc.Cluster
	rf                   int

	term     int64
	curTerm  atomic.Int64 // == term, readable from monitor goroutines
	leader   string
	attached map[string]bool // followers attached to the current leader
	writeSeq atomic.Int64

	mu     sync.Mutex
	acked  map[string]string // key -> value of writes acknowledged OK
	trace  []string
	ackMon *ackMonitor
	fences int

	t0 time.Time
	// what the leader of the current term may count for each follower without having received an acknowledgement:
	// the head the follower reported when it was fenced, or the point the leader truncated it to
	base             map[string]int64
	commitAtInstall  int64           // commit offset the leader of the current term started from (hook leader.become.tracker)
	initialCommit    sync.Map        // term -> commit offset the tracker of that term's leader was created with
	evAtElect        int             // number of cluster events at the last election
	amnesiac         map[string]bool // wiped and not yet caught up: does not count towards a fencing quorum
	rejoinFailures   map[string]int
	allowWipeOnStuck bool
}

func (ch *chaos) log(format string, a ...any) {
	ch.mu.Lock()
	ch.trace = append(ch.trace, fmt.Sprintf(format, a...))
	if os.Getenv("VERIF_DEBUG_TIMING") != "" {
		fmt.Fprintf(os.Stderr, "%8.3fs %s\n", time.Since(ch.t0).Seconds(), fmt.Sprintf(format, a...))
	}
	ch.mu.Unlock()
}

func (ch *chaos) tail(n int) []string {
	ch.mu.Lock()
	defer ch.mu.Unlock()
	if len(ch.trace) <= n {
		return append([]string{}, ch.trace...)
	}
	return append([]string{}, ch.trace[len(ch.trace)-n:]...)
}

func (ch *chaos) viol(prop, clause, detail string) {
	if prop != ch.prop {
		return // each part reports its own property only
	}
	ch.r.Violate(prop+"/"+clause, detail+"; schedule tail: "+strings.Join(ch.tail(10), " | "), map[string]any{"schedule": ch.tail(200), "rf": ch.rf})
}

// ---- C03: at every ack, the follower's durable log equals the leader's up to the acked offset ----

type ackMonitor struct {
	ch        *chaos
	mu        sync.Mutex
	checked   map[int64]int64 // stream id -> highest offset already compared
	n         atomic.Int64
	acked     map[string]int64 // "follower@term" -> highest offset acknowledged on a stream of that term since the node's last restart
	ackedOld  map[string]int64 // the same, before the node's last restart
	firstSent map[int64]bool   // streams whose first append has been seen
	sent      map[string]int64 // "follower@term" -> highest offset in any acknowledgement sent on a stream of that term, ever
}

func (m *ackMonitor) everSent(follower string, term int64) (int64, bool) {
	m.mu.Lock()
	defer m.mu.Unlock()
	v, ok := m.sent[fmt.Sprintf("%s@%d", follower, term)]
	return v, ok
}

func (m *ackMonitor) ackedBy(follower string, term int64) (int64, bool) {
	m.mu.Lock()
	defer m.mu.Unlock()
	v, ok := m.acked[fmt.Sprintf("%s@%d", follower, term)]
	return v, ok
}

// ackedBeforeRestart: what the node had acknowledged in that term before its process last restarted.
func (m *ackMonitor) ackedBeforeRestart(follower string, term int64) (int64, bool) {
	m.mu.Lock()
	defer m.mu.Unlock()
	v, ok := m.ackedOld[fmt.Sprintf("%s@%d", follower, term)]
	return v, ok
}

// noteRestart moves the node's acknowledgements to the "before the restart" side (wiped: they are void).
func (m *ackMonitor) noteRestart(node string, wiped bool) {
	m.mu.Lock()
	defer m.mu.Unlock()
	if m.ackedOld == nil {
		m.ackedOld = map[string]int64{}
	}
	for k, v := range m.acked {
		if strings.HasPrefix(k, node+"@") {
			if !wiped && v > m.ackedOld[k] {
				m.ackedOld[k] = v
			}
			delete(m.acked, k)
		}
	}
	if wiped {
		for k := range m.ackedOld {
			if strings.HasPrefix(k, node+"@") {
				delete(m.ackedOld, k)
			}
		}
	}
}

func readEntry(w wal.Wal, off int64) (*proto.LogEntry, error) {
	rd, err := w.NewReader(off - 1)
	if err != nil {
		return nil, err
	}
	defer rd.Close()
	if !rd.HasNext() {
		return nil, fmt.Errorf("offset %d is beyond the synced log (last %d)", off, w.LastOffset())
	}
	return rd.ReadNext()
}

func (m *ackMonitor) OnAckSent(s *rc.ReplStream, offset int64) {
	ch := m.ch
	// every acknowledgement that leaves is on record before it can reach the leader
	m.mu.Lock()
	if m.sent == nil {
		m.sent = map[string]int64{}
	}
	if k := fmt.Sprintf("%s@%d", s.Follower, s.Term); offset > m.sent[k] || m.sent[k] == 0 {
		m.sent[k] = offset
	}
	m.mu.Unlock()
	fn, ln := ch.c.Node(s.Follower), ch.c.Node(s.Leader)
	if fn == nil || ln == nil || fn.Down() || ln.Down() {
		return
	}
	fw, lw := fn.Wal(), ln.Wal()
	if fw == nil || lw == nil {
		return
	}
	// the leader's log is the reference only while it still leads that term. No controller method that
	// takes a controller lock may be called here: the ack may be sent while BecomeLeader (leader lock) or
	// append (follower lock) is in progress. The harness is the coordinator, so it knows the current term.
	if ch.curTerm.Load() != s.Term {
		return
	}
	m.mu.Lock()
	if m.acked == nil {
		m.acked = map[string]int64{}
	}
	if k := fmt.Sprintf("%s@%d", s.Follower, s.Term); offset > m.acked[k] || m.acked[k] == 0 {
		m.acked[k] = offset
	}
	from, seen := m.checked[s.ID]
	if !seen {
		from = offset - 1
	}
	if offset > from {
		m.checked[s.ID] = offset
	}
	m.mu.Unlock()
	if offset <= from && seen {
		from = offset - 1 // a duplicate ack: re-check just that offset
	}
	if !seen {
		// first ack on this stream: the follower's log must begin where its database ends: at 0, or right after the
		// offset it answered for the last snapshot it installed (its log is cleared then) — never later (a hole)
		// (judged only when the last thing that rebuilt the node was a snapshot install: a node that the harness wiped
		// and re-attached in the same term through the leader's old cursor is outside what the coordinator does)
		expected := int64(-1)
		for _, e := range ch.c.Events() {
			if e.Node != s.Follower {
				continue
			}
			switch e.Kind {
			case "wipe":
				expected = -1
			case "snapshot-ack":
				expected = e.Offset + 1
			}
		}
		m.n.Add(1)
		if first := fw.FirstOffset(); expected >= 0 && first > expected {
			ch.viol("C03", "hole-between-the-follower-database-and-its-log", fmt.Sprintf("%s acknowledges offset %d to %s (term %d); its log begins at offset %d, its database was last rebuilt up to offset %d", s.Follower, offset, s.Leader, s.Term, first, expected-1))
		}
	}
	for o := from + 1; o <= offset; o++ {
		m.n.Add(1)
		fe, ferr := readEntry(fw, o)
		if ferr != nil {
			if fn.Down() || fn.Wal() != fw || strings.Contains(ferr.Error(), "actual buf size: 0") || strings.Contains(ferr.Error(), "closed") {
				return // the node is being stopped under our feet (its segments are unmapped): nothing to conclude
			}
			var fCommit int64 = -1
			if fc, err := fn.Director.GetFollower(ch.c.Shard); err == nil {
				fCommit = fc.CommitOffset() // atomic, no lock
			}
			if first := fw.FirstOffset(); (first >= 0 && o < first) || (first < 0 && o <= fCommit) {
				// below the follower's log: the entry is part of the snapshot it installed (durable in its database)
				ch.r.Count("acks_covered_by_snapshot", 1)
				continue
			}
			// a concurrent truncate by a newer term can remove it legitimately: only report while this is still the current term
			if ch.curTerm.Load() == s.Term {
				var evs []string
				all := ch.c.Events()
				for _, e := range all[max(0, len(all)-3000):] {
					if (e.Node == s.Follower || e.Peer == s.Follower) && !(e.Kind == "ack-delivered") && !(e.Kind == "ack-sent" && e.Offset < o-3) {
						evs = append(evs, fmt.Sprintf("%s(%s<-%s t%d o%d s%d %s)", e.Kind, e.Node, e.Peer, e.Term, e.Offset, e.Aux, e.Note))
					}
				}
				if len(evs) > 40 {
					evs = evs[len(evs)-40:]
				}
				ch.viol("C03", "ack-for-entry-not-durable", fmt.Sprintf("follower %s acked offset %d to leader %s (term %d, stream %d) but its durable log does not hold offset %d: %v (follower log: first %d synced %d appended %d, applied commit %d); events: %v",
					s.Follower, offset, s.Leader, s.Term, s.ID, o, ferr, fw.FirstOffset(), fw.LastOffset(), wal.VerifLastAppendedOffset(fw), fCommit, evs))
			}
			return
		}
		le, lerr := readEntry(lw, o)
		if lerr != nil {
			return // the leader trimmed or is closing: nothing to compare against
		}
		if fe.Term != le.Term || string(fe.Value) != string(le.Value) || fe.Timestamp != le.Timestamp {
			ch.viol("C03", "acked-entry-differs-from-leader", fmt.Sprintf("follower %s acked offset %d to leader %s (term %d); at offset %d the follower holds (term %d, %d bytes), the leader (term %d, %d bytes)",
				s.Follower, offset, s.Leader, s.Term, o, fe.Term, len(fe.Value), le.Term, len(le.Value)))
			return
		}
	}
}
func (*ackMonitor) OnAckDelivered(*rc.ReplStream, int64) {}

func (*ackMonitor) OnAppendSent(*rc.ReplStream, *proto.Append) {}

// ---- operations ----

func (ch *chaos) leaderNode() *rc.Node {
	if ch.leader == "" {
		return nil
	}
	return ch.c.Node(ch.leader)
}

// write issues n writes through the current leader. If wait is false they are fired and their outcome is
// recorded whenever it arrives (they may never be acknowledged when the leader has no quorum).
func (ch *chaos) write(n int, wait bool) {
	ln := ch.leaderNode()
	if ln == nil {
		return
	}
	lc, err := ln.Leader()
	if err != nil {
		return
	}
	var wg sync.WaitGroup
	for i := 0; i < n; i++ {
		seq := ch.writeSeq.Add(1)
		key := fmt.Sprintf("k%d", seq%17)
		val := fmt.Sprintf("v%d-t%d", seq, ch.term)
		req := &proto.WriteRequest{Shard: pb.Int64(0), Puts: []*proto.PutRequest{{Key: key, Value: []byte(val)}}}
		if seq%11 == 0 {
			req.Deletes = []*proto.DeleteRequest{{Key: fmt.Sprintf("k%d", (seq+3)%17)}}
		}
		if seq%23 == 0 {
			req.DeleteRanges = []*proto.DeleteRangeRequest{{StartInclusive: "k10", EndExclusive: "k13"}}
		}
		wg.Add(1)
		done := make(chan struct{})
		leaderAtCall, termAtCall := ch.leader, ch.term
		lc.Write(context.Background(), req, concurrent.NewOnce(func(resp *proto.WriteResponse) {
			ackAfterFence(ch, leaderAtCall, termAtCall, val)
			if len(resp.Puts) == 1 && resp.Puts[0].Status == proto.Status_OK {
				ch.mu.Lock()
				ch.acked[key] = val
				ch.mu.Unlock()
				ch.r.Count("writes_acked", 1)
			}
			close(done)
			wg.Done()
		}, func(err error) {
			ch.r.Count("writes_failed_or_aborted", 1)
			if es := scrubErr(err); !strings.Contains(es, "already closed") && !strings.Contains(es, "wrong state") {
				ch.log("write %s failed: %s", val, es)
			}
			close(done)
			wg.Done()
		}))
		if wait {
			select {
			case <-done:
			case <-time.After(500 * time.Millisecond):
				// no quorum at the moment: leave it pending (it may complete or abort later) and stop the burst
				ch.r.Count("writes_pending", 1)
				wait = false
				n = i + 1
			}
		}
	}
	ch.log("write x%d via %s (wait=%v)", n, ch.leader, wait)
}

// elect runs one election: fence `fenceSet` (in that order), pick a maximal responder, install it.
func (ch *chaos) elect(fenceSet []*rc.Node) bool {
	ch.term++
	ch.curTerm.Store(ch.term)
	var names []string
	for _, n := range fenceSet {
		names = append(names, n.Name)
	}
	heads := map[string]rc.Head{}
	stopRacer := func() {}
	if ch.prop == "C04" {
		// a client keeps writing to the old leader while the fences go out (its writes are refused from the moment
		// the leader is fenced; none may reach the log after the leader has answered)
		if ln := ch.leaderNode(); ln != nil {
			if lc, err := ln.Leader(); err == nil {
				stop := make(chan struct{})
				var wwg sync.WaitGroup
				wwg.Add(1)
				go func() {
					defer wwg.Done()
					for i := 0; ; i++ {
						select {
						case <-stop:
							return
						default:
						}
						seq := ch.writeSeq.Add(1)
						racer, racerTerm := ln.Name, ch.term-1
						lc.Write(context.Background(), &proto.WriteRequest{Shard: pb.Int64(0), Puts: []*proto.PutRequest{{Key: fmt.Sprintf("k%d", seq%17), Value: []byte(fmt.Sprintf("v%d-race", seq))}}},
							concurrent.NewOnce(func(*proto.WriteResponse) { ackAfterFence(ch, racer, racerTerm, "a racing write") }, func(error) {}))
						ch.r.Count("writes_racing_with_fences", 1)
						if i%4 == 3 {
							time.Sleep(50 * time.Microsecond)
						}
					}
				}()
				stopRacer = func() {
					select {
					case <-stop:
					default:
						close(stop)
					}
					wwg.Wait()
				}
				defer stopRacer()
			}
		}
	}
	for _, n := range fenceSet {
		h := ch.c.Fence(ch.term, []*rc.Node{n})
		for k, v := range h {
			heads[k] = v
			ch.afterFence(ch.c.Node(k), ch.term, v)
		}
	}
	// the racing client stops before anybody is installed: the old leader may be elected again, and then accepts writes
	stopRacer()
	ch.log("fence term %d: %v -> %v", ch.term, names, heads)
	withDisk := 0
	eligible := map[string]rc.Head{}
	for n, h := range heads {
		if !ch.amnesiac[n] {
			withDisk++
			eligible[n] = h
		}
	}
	// "a majority of the ensemble keeps its disk": a node that lost its disk does not count until it has caught up
	if withDisk < ch.rf/2+1 {
		ch.log("election aborted: only %d of %d fenced nodes still have their disk", withDisk, ch.rf)
		ch.leader = ""
		return false
	}
	best := rc.PickLeader(eligible)
	sort.Strings(best)
	newLeader := best[ch.rng.IntN(len(best))]
	for n := range heads {
		// the new leader must be able to reach the followers it is given (BecomeLeader waits for their acks)
		ch.c.Link(newLeader, n).SetStalled(false)
	}
	evBefore := len(ch.c.Events())
	if err := ch.c.Install(ch.term, newLeader, ch.rf, heads); err != nil {
		ch.log("become-leader %s failed: %v", newLeader, err)
		if os.Getenv("VERIF_DEBUG_STACKS") != "" {
			buf := make([]byte, 8<<20)
			buf = buf[:runtime.Stack(buf, true)]
			_ = os.WriteFile(fmt.Sprintf("/tmp/become-leader-stuck-%d.txt", os.Getpid()), buf, 0o644)
		}
		ch.leader = ""
		return false
	}
	ch.leader = newLeader
	ch.attached = map[string]bool{}
	ch.base = map[string]int64{}
	ch.evAtElect = evBefore
	ch.commitAtInstall = 1 << 62 // unknown: nothing is judged in this term
	if v, ok := ch.initialCommit.Load(ch.term); ok {
		ch.commitAtInstall = v.(int64)
	}
	for n, h := range heads {
		if n != newLeader {
			ch.attached[n] = true
			ch.base[n] = h.Offset
			if tr := ch.c.LastTruncateTo(n); tr != nil && tr.Term == ch.term && tr.HeadEntryId != nil {
				ch.base[n] = tr.HeadEntryId.Offset
			}
		}
	}
	ch.checkCommitSupport()
	ch.r.Count("elections", 1)
	ch.log("leader %s term %d followers %v", newLeader, ch.term, keysOf(ch.attached))
	return true
}

func keysOf(m map[string]bool) []string {
	var res []string
	for k := range m {
		res = append(res, k)
	}
	sort.Strings(res)
	return res
}

// rejoinStragglers fences and attaches every up node that is not part of the current term yet.
func (ch *chaos) rejoinStragglers() {
	if ch.leader == "" {
		return
	}
	for _, n := range ch.c.Nodes {
		if n.Name == ch.leader || ch.attached[n.Name] || n.Down() {
			continue
		}
		head, err := ch.c.RejoinHead(ch.term, ch.leader, n)
		if err == nil && ch.base != nil {
			b := head.Offset
			if tr := ch.c.LastTruncateTo(n.Name); tr != nil && tr.Term == ch.term && tr.HeadEntryId != nil && tr.HeadEntryId.Offset < b {
				b = tr.HeadEntryId.Offset
			}
			if old, ok := ch.base[n.Name]; !ok || b > old {
				ch.base[n.Name] = b
			}
		}
		if err != nil {
			ch.log("rejoin %s failed: %v", n.Name, scrubErr(err))
			ch.rejoinFailures[n.Name]++
			if ch.rejoinFailures[n.Name] >= 3 && ch.allowWipeOnStuck {
				// A deposed leader whose unreplicated tail has a higher term than the new leader's head is refused
				// by AddFollower for good (observation recorded in DESIGN.md; an availability matter, not one of the
				// properties). The operator's way out is to give the node an empty disk.
				if ch.wipe(n.Name) {
					ch.r.Count("stuck_nodes_wiped", 1)
					ch.rejoinFailures[n.Name] = 0
				}
			}
			continue
		}
		ch.attached[n.Name] = true
		ch.r.Count("rejoins", 1)
		ch.log("rejoin %s", n.Name)
	}
}

// checkCommitSupport: a commit offset that advanced in the current term must be backed by a majority: the leader plus
// followers that either sent an acknowledgement for at least that offset on a stream of this term, installed a
// snapshot reaching it, or were attached with a reported (or truncated-to) head of at least that offset. Everything
// compared is on record before the leader can have acted on it.
func (ch *chaos) checkCommitSupport() {
	if ch.leader == "" || ch.base == nil {
		return
	}
	ln := ch.c.Node(ch.leader)
	if ln == nil || ln.Down() {
		return
	}
	st, err := ln.GetStatus()
	if err != nil || st.Status != proto.ServingStatus_LEADER || st.Term != ch.term {
		return
	}
	c := st.CommitOffset
	if c <= ch.commitAtInstall {
		return
	}
	evs := ch.c.Events()
	support := []string{ch.leader}
	seen := map[string]int64{}
	for _, n := range ch.c.Nodes {
		if n.Name == ch.leader {
			continue
		}
		best, have := int64(-1), false
		if b, ok := ch.base[n.Name]; ok {
			best, have = b, true
		}
		if v, ok := ch.ackMon.everSent(n.Name, ch.term); ok && (!have || v > best) {
			best, have = v, true
		}
		if ch.evAtElect <= len(evs) {
			for _, e := range evs[ch.evAtElect:] {
				if e.Kind == "snapshot-ack" && e.Node == n.Name && (!have || e.Offset > best) {
					best, have = e.Offset, true
				}
			}
		}
		if have {
			seen[n.Name] = best
			if best >= c {
				support = append(support, n.Name)
			}
		}
	}
	ch.r.Count("commit_offsets_checked_against_acknowledgements", 1)
	if len(support) < ch.rf/2+1 {
		ch.viol("C03", "commit-offset-without-acknowledgements-from-a-quorum", fmt.Sprintf("leader %s (term %d, replication factor %d) reports commit offset %d (it started from %d when it was installed); followers' highest acknowledged / reported positions in this term: %v — only %v back that offset", ch.leader, ch.term, ch.rf, c, ch.commitAtInstall, seen, support))
	}
}

// afterFence is overridden by the C04 part (checks on the node that just answered NewTerm).
func (ch *chaos) afterFence(n *rc.Node, term int64, head rc.Head) {
	ch.fences++
	if ch.prop == "C04" {
		checkFence(ch, n, term, head)
	}
}

// fenceSet picks nodes to fence: a majority of nodes that still have their disk (when available) plus random extras.
func (ch *chaos) fenceSet(exclude string, must ...string) []*rc.Node {
	need := ch.rf/2 + 1
	var set []*rc.Node
	in := map[string]bool{}
	withDisk := 0
	add := func(n *rc.Node) {
		set = append(set, n)
		in[n.Name] = true
		if !ch.amnesiac[n.Name] {
			withDisk++
		}
	}
	for _, m := range must {
		if n := ch.c.Node(m); n != nil && !n.Down() && m != exclude {
			add(n)
		}
	}
	extra := ch.rng.IntN(ch.rf - need + 1)
	for _, i := range ch.rng.Perm(len(ch.c.Nodes)) {
		n := ch.c.Nodes[i]
		if in[n.Name] || n.Down() || n.Name == exclude {
			continue
		}
		if withDisk < need {
			if !ch.amnesiac[n.Name] {
				add(n)
			}
		} else if extra > 0 {
			add(n)
			extra--
		}
	}
	ch.rng.Shuffle(len(set), func(i, j int) { set[i], set[j] = set[j], set[i] })
	return set
}

func (ch *chaos) majorityIncluding(must ...string) []*rc.Node { return ch.fenceSet("", must...) }
func (ch *chaos) majorityExcluding(ex string) []*rc.Node      { return ch.fenceSet(ex) }

// wipe gives a node an empty disk, if enough other nodes keep theirs.
func (ch *chaos) wipe(name string) bool {
	withDisk := 0
	for _, n := range ch.c.Nodes {
		if n.Name != name && !ch.amnesiac[n.Name] {
			withDisk++
		}
	}
	if withDisk < ch.rf/2+1 {
		return false
	}
	if err := ch.c.Node(name).Wipe(); err != nil {
		return false
	}
	ch.ackMon.noteRestart(name, true)
	ch.amnesiac[name] = true
	delete(ch.attached, name)
	ch.log("wipe %s", name)
	return true
}

// refreshAmnesiac: a wiped node that has caught up with the current leader counts again.
func (ch *chaos) refreshAmnesiac() {
	if ch.leader == "" {
		return
	}
	ls, err := ch.c.Node(ch.leader).GetStatus()
	if err != nil || ls.Status != proto.ServingStatus_LEADER {
		return
	}
	for name := range ch.amnesiac {
		n := ch.c.Node(name)
		if n.Down() || !ch.attached[name] {
			continue
		}
		st, err := n.GetStatus()
		w := n.Wal()
		if err == nil && st.Term == ls.Term && st.HeadOffset >= ls.CommitOffset && w != nil && (w.LastOffset() >= ls.CommitOffset || st.CommitOffset >= ls.CommitOffset) {
			delete(ch.amnesiac, name)
			ch.log("%s has caught up after its wipe", name)
		}
	}
}

// quiesce heals everything, brings every node into the current term and waits until all followers have
// everything. Returns false (inconclusive) if that does not happen within a generous bound.
func (ch *chaos) quiesce() bool {
	for _, a := range ch.c.Nodes {
		for _, b := range ch.c.Nodes {
			l := ch.c.Link(a.Name, b.Name)
			l.SetStalled(false)
			l.SetDelay(0)
		}
	}
	for _, n := range ch.c.Nodes {
		if n.Down() {
			ch.ackMon.noteRestart(n.Name, false)
			if err := n.Restart(); err != nil {
				ch.r.Inconclusive("restart failed: " + err.Error())
				return false
			}
		}
	}
	if ch.leader == "" || ch.c.Node(ch.leader).Down() {
		if !ch.elect(ch.majorityIncluding()) {
			if !ch.elect(ch.c.Nodes) {
				ch.r.Inconclusive("no leader could be elected at the end")
				return false
			}
		}
	}
	ch.rejoinStragglers()
	ch.write(3, true)
	dl := time.Now().Add(30 * time.Second)
	for {
		ls, err := ch.c.Node(ch.leader).GetStatus()
		all := err == nil && ls.Status == proto.ServingStatus_LEADER && ls.CommitOffset == ls.HeadOffset
		if all {
			for _, n := range ch.c.Nodes {
				if n.Name == ch.leader {
					continue
				}
				st, err := n.GetStatus()
				// a follower learns the commit offset with the next append: it may lag by the last entries
				if err != nil || st.HeadOffset != ls.HeadOffset || st.Term != ls.Term {
					all = false
					continue
				}
				// everything it has appended must also have been synced (the sync runs behind the append)
				if w := n.Wal(); w == nil || (w.LastOffset() != ls.HeadOffset && !(w.LastOffset() < 0 && st.CommitOffset == ls.HeadOffset)) {
					all = false
				}
			}
		}
		if all {
			return true
		}
		if time.Now().After(dl) {
			var sts []string
			for _, n := range ch.c.Nodes {
				st, err := n.GetStatus()
				sts = append(sts, fmt.Sprintf("%s:%v/%v", n.Name, st, err))
			}
			ch.r.Inconclusive(fmt.Sprintf("replicas did not converge within 30s (leader %s): %v; tail: %v", ch.leader, sts, ch.tail(6)))
			return false
		}
		ch.rejoinStragglers()
		ch.refreshAmnesiac()
		time.Sleep(5 * time.Millisecond)
	}
}

// compareReplicas checks, at quiescence, that every replica's log equals the leader's up to the commit offset
// (C03) and that the applied state is identical (C06).
func (ch *chaos) compareReplicas() {
	ln := ch.c.Node(ch.leader)
	ls, _ := ln.GetStatus()
	lw := ln.Wal()
	for _, n := range ch.c.Nodes {
		if n.Name == ch.leader {
			continue
		}
		fw := n.Wal()
		if fw.LastOffset() < 0 {
			ch.r.Count("replicas_built_from_snapshot_only", 1) // nothing in its log: everything it has came with a snapshot
			continue
		}
		from := lw.FirstOffset()
		if fw.FirstOffset() > from {
			from = fw.FirstOffset()
		}
		for o := from; o >= 0 && o <= ls.CommitOffset; o++ {
			le, lerr := readEntry(lw, o)
			fe, ferr := readEntry(fw, o)
			if lerr != nil || ferr != nil {
				ch.viol("C03", "replica-log-missing-committed-entry", fmt.Sprintf("offset %d (commit %d): leader err %v, %s err %v", o, ls.CommitOffset, lerr, n.Name, ferr))
				break
			}
			if le.Term != fe.Term || string(le.Value) != string(fe.Value) {
				if ch.clusterLogDivergence == "" {
					ch.clusterLogDivergence = divergenceClass(lw, le.Term, fe.Term)
				}
				ch.viol("C03", "replica-logs-diverge-below-commit/"+divergenceClass(lw, le.Term, fe.Term), fmt.Sprintf("offset %d <= commit %d: leader %s has term %d, %s has term %d", o, ls.CommitOffset, ch.leader, le.Term, n.Name, fe.Term))
				break
			}
			ch.r.Count("log_entries_compared", 1)
		}
	}
	for _, e := range ch.c.Events() {
		if e.Kind == "truncate-below-applied" {
			ch.viol("C03", "committed-entries-truncated/stale-higher-term-tail-won-the-election", fmt.Sprintf("%s had applied entries up to offset %d and was truncated to offset %d by the leader of term %d: entries that a quorum had committed were replaced", e.Node, e.Aux, e.Offset, e.Term))
			break
		}
	}
	// applied state: replicas that have applied the same prefix must be identical (a follower may lag by the last entries)
	type rep struct {
		name   string
		commit int64
		dump   map[string]string
	}
	var reps []rep
	for _, n := range ch.c.Nodes {
		st, err := n.GetStatus()
		if err != nil {
			continue
		}
		_ = st
		// the commit offset the database itself carries is what it has applied; a follower may still be applying:
		// take the dump again until nothing was applied while it was taken
		var d map[string]string
		var applied int64
		for try := 0; ; try++ {
			applied = n.AppliedOffset()
			if d, err = shard.CanonicalDump(n.KV()); err != nil {
				ch.r.Inconclusive("dump: " + err.Error())
				return
			}
			if n.AppliedOffset() == applied {
				break
			}
			if try > 50 {
				ch.r.Inconclusive("a replica kept applying entries while it was dumped")
				return
			}
			time.Sleep(5 * time.Millisecond)
		}
		reps = append(reps, rep{n.Name, applied, d})
	}
	ref := map[string]string{}
	for i := range reps {
		for j := i + 1; j < len(reps); j++ {
			if reps[i].commit != reps[j].commit {
				continue
			}
			ch.r.Count("replica_dumps_compared", 1)
			if diff := shard.DiffDumps(reps[i].dump, reps[j].dump); diff != "" {
				class := ch.logDivergenceClass(reps[i].name, reps[j].name, reps[i].commit)
				if os.Getenv("VERIF_DEBUG_DIFF") != "" {
					shard.DiffLimit = 60
					fmt.Fprintf(os.Stderr, "DIFF %s vs %s @%d class=%s:\n%s\n", reps[i].name, reps[j].name, reps[i].commit, class, strings.ReplaceAll(shard.DiffDumps(reps[i].dump, reps[j].dump), "; ", "\n"))
					for _, e := range ch.c.Events() {
						if e.Kind != "ack-sent" && e.Kind != "ack-delivered" {
							fmt.Fprintf(os.Stderr, "EV %d %s node=%s peer=%s t=%d o=%d aux=%d %s\n", e.Seq, e.Kind, e.Node, e.Peer, e.Term, e.Offset, e.Aux, e.Note)
						}
					}
				}
				ch.viol("C06", "replica-state-differs/"+class, fmt.Sprintf("%s vs %s, both at commit offset %d: %s", reps[i].name, reps[j].name, reps[i].commit, diff))
				ch.viol("C03", "replica-state-differs/"+class, fmt.Sprintf("%s vs %s, both at commit offset %d: %s", reps[i].name, reps[j].name, reps[i].commit, diff))
			}
		}
		if reps[i].name == ch.leader {
			ref = reps[i].dump
		}
	}
	// acknowledged writes are there (the last acknowledged value per key, unless deleted later — keys are
	// only checked when the final value is the acknowledged one or newer; full treatment is C01's job)
	ch.r.Count("keys_in_final_state", int64(len(ref)))
}

// divergenceClass names the shape of a log divergence so that a known cause does not hide other ones.
func divergenceClass(leaderWal wal.Wal, leaderTerm, followerTerm int64) string {
	if followerTerm > leaderTerm {
		// does the leader's log contain any entry of the follower's term?
		has := false
		if rd, err := leaderWal.NewReader(leaderWal.FirstOffset() - 1); err == nil {
			for rd.HasNext() {
				e, err := rd.ReadNext()
				if err != nil {
					break
				}
				if e.Term == followerTerm {
					has = true
					break
				}
			}
			_ = rd.Close()
		}
		if !has {
			return "follower-kept-entries-of-a-term-absent-from-the-leader-log"
		}
		return "follower-has-higher-term-entry"
	}
	if followerTerm < leaderTerm {
		return "follower-has-older-term-entry"
	}
	return "same-term-different-payload"
}

// logDivergenceClass classifies why two replicas differ by looking at their logs.
func (ch *chaos) logDivergenceClass(a, b string, upTo int64) string {
	wa, wb := ch.c.Node(a).Wal(), ch.c.Node(b).Wal()
	// when the logs of this pair cannot explain the difference (one of them was restarted by a snapshot, or they
	// agree by now), a divergence between some replica's log and the leader's found in the same run does: the
	// state of that replica, or of one rebuilt from it, differs for the same reason
	fallback := func(cls string) string {
		if ch.clusterLogDivergence != "" {
			return ch.clusterLogDivergence
		}
		// entries that a replica had applied were cut from its log in this run, or one of the two went through a
		// truncation: the known causes of a state difference, whether or not the logs can still be compared
		truncated := false
		for _, e := range ch.c.Events() {
			if e.Kind == "truncate-below-applied" {
				return "logs-identical-after-a-truncation-below-the-applied-offset"
			}
			if e.Kind == "truncate-ok" && (e.Node == a || e.Node == b) {
				truncated = true
			}
		}
		if truncated {
			return "logs-identical-but-a-replica-was-truncated-earlier"
		}
		return cls
	}
	if wa == nil || wb == nil || wa.LastOffset() < 0 || wb.LastOffset() < 0 {
		return fallback("logs-not-comparable")
	}
	from := wa.FirstOffset()
	if wb.FirstOffset() > from {
		from = wb.FirstOffset()
	}
	for o := from; o <= upTo; o++ {
		ea, erra := readEntry(wa, o)
		eb, errb := readEntry(wb, o)
		if erra != nil || errb != nil {
			return fallback("logs-not-comparable")
		}
		if ea.Term != eb.Term || string(ea.Value) != string(eb.Value) {
			// name it from the point of view of the replica holding the lower term (the one that follows the elected history)
			if ea.Term <= eb.Term {
				return divergenceClass(wa, ea.Term, eb.Term)
			}
			return divergenceClass(wb, eb.Term, ea.Term)
		}
	}
	truncated := false
	for _, e := range ch.c.Events() {
		if e.Kind == "truncate-below-applied" {
			return "logs-identical-after-a-truncation-below-the-applied-offset"
		}
		if e.Kind == "truncate-ok" && (e.Node == a || e.Node == b) {
			truncated = true
		}
	}
	if truncated {
		// the part of the logs both replicas still hold is identical, but one of them went through a truncation
		// earlier (its log may have been restarted by a snapshot since): same family as the truncation-point defect
		return "logs-identical-but-a-replica-was-truncated-earlier"
	}
	return fallback("logs-identical")
}

// storedCommitOffset reads the commit offset a database carries (-1 when it has none).
func storedCommitOffset(k kv.KV) (res int64, ok bool) {
	defer func() {
		if recover() != nil {
			ok = false
		}
	}()
	_, v, closer, err := k.Get("__oxia/commit-offset", kv.ComparisonEqual)
	if err != nil {
		if errors.Is(err, kv.ErrKeyNotFound) {
			return -1, true
		}
		return 0, false
	}
	defer closer.Close()
	se := &proto.StorageEntry{}
	if se.UnmarshalVT(v) != nil {
		return 0, false
	}
	var x int64
	if _, err := fmt.Sscanf(string(se.Value), "%d", &x); err != nil {
		return 0, false
	}
	return x, true
}

// installApplyMonitor watches every database of the cluster: the offsets applied to one database instance must
// be consecutive (C07: no entry skipped, applied twice or out of order). The first offset seen on an instance
// is taken as its starting point.
func installApplyMonitor(ch *chaos) {
	var mu sync.Mutex
	last := map[any]int64{}
	var ring []string
	note := func(s string) {
		mu.Lock()
		ring = append(ring, s)
		if len(ring) > 120 {
			ring = ring[len(ring)-120:]
		}
		mu.Unlock()
	}
	vhook.Set("qat.commit", func(_ string, args ...any) { note(fmt.Sprintf("commit(%p)=%d head=%d", args[0], args[1], args[2])) })
	vhook.Set("qat.head", func(_ string, args ...any) { note(fmt.Sprintf("head(%p)=%d", args[0], args[1])) })
	vhook.Set("leader.become.tracker", func(_ string, args ...any) {
		if len(args) >= 4 {
			ch.initialCommit.Store(args[1].(int64), args[3].(int64))
		}
	})
	vhook.Set("db.apply.before", func(_ string, args ...any) {
		if len(args) < 2 {
			return
		}
		off := args[1].(int64)
		note(fmt.Sprintf("apply(%p)=%d", args[0], off))
		mu.Lock()
		prev, seen := last[args[0]]
		last[args[0]] = off
		mu.Unlock()
		if !seen {
			// first apply on this database instance (after a restart or a snapshot install): it must continue right
			// after the commit offset the database carries. Read here, inside the apply path: the database is open.
			if k, ok := args[0].(kv.KV); ok {
				if stored, ok2 := storedCommitOffset(k); ok2 {
					prev, seen = stored, true
					ch.r.Count("apply_resumptions_checked", 1)
				}
			}
		}
		ch.r.Count("apply_events", 1)
		if seen && off != prev+1 {
			node := "?"
			for _, n := range ch.c.Nodes {
				if k := n.KV(); k != nil && any(k) == args[0] {
					node = n.Name
				}
			}
			kind := "skipped"
			if off <= prev {
				kind = "repeated-or-out-of-order"
				// a node whose log was cut below what it had applied (known finding) applies those offsets again
				for _, e := range ch.c.Events() {
					if e.Kind == "truncate-below-applied" && e.Node == node {
						kind = "repeated-after-a-truncation-below-the-applied-offset"
					}
				}
			}
			buf := make([]byte, 1<<14)
			buf = buf[:runtime.Stack(buf, false)]
			var walInfo string
			for _, n := range ch.c.Nodes {
				if n.Name == node {
					w := n.Wal()
					walInfo = fmt.Sprintf("wal first=%d synced=%d appended=%d;", w.FirstOffset(), w.LastOffset(), wal.VerifLastAppendedOffset(w))
					for o := prev + 1; o < off; o++ {
						e, err := readEntry(w, o)
						if err != nil {
							walInfo += fmt.Sprintf(" [%d: %v]", o, err)
						} else {
							walInfo += fmt.Sprintf(" [%d: term %d len %d]", o, e.Term, len(e.Value))
						}
					}
				}
			}
			mu.Lock()
			walInfo += " recent: " + strings.Join(ring, " ")
			mu.Unlock()
			buf = append([]byte(walInfo+" "), buf...)
			ch.c.Log(rc.Event{Kind: "apply-gap", Node: node, Offset: off, Aux: prev})
			ch.viol("C07", "apply-not-consecutive/"+kind, fmt.Sprintf("database of %s applied offset %d right after offset %d", node, off, prev))
			ch.viol("C03", "apply-not-consecutive/"+kind, fmt.Sprintf("database of %s applied offset %d right after offset %d; stack: %s", node, off, prev, string(buf)))
		}
	})
}
