package repl

import (
	"context"
	"fmt"
	"math/rand/v2"
	"os"
	"path/filepath"
	"runtime"
	"strings"
	"sync"
	"sync/atomic"
	"time"

	pb "google.golang.org/protobuf/proto"

	"github.com/oxia-db/oxia/common/concurrent"
	time2 "github.com/oxia-db/oxia/common/time"
	"github.com/oxia-db/oxia/common/vhook"
	"github.com/oxia-db/oxia/proto"
	"github.com/oxia-db/oxia/server"
	"github.com/oxia-db/oxia/server/kv"
	"github.com/oxia-db/oxia/server/wal"

	"verif/lib/core"
	rc "verif/lib/replcluster"
	"verif/lib/shard"
)

func init() {
	core.Register(&core.Part{
		Name: "C06.routes", Prop: "C06", Race: true,
		Cases: func(tier string) int { return tierN(tier, 30, 500) },
		Run:   runC06Routes,
		Rule: "one request sequence (quick 120, thorough up to 1000 requests: sessions created and closed, ephemeral puts, sequence puts, index updates, conditional ops, delete ranges below and above the 100-key switch, large values in thorough to force memtable flushes) is applied on a real 3-node group and reaches the same offset by six routes that are compared pairwise through decoded full dumps: " +
			"(1) leader live, (2) follower live, (3) follower whose database is replaced mid-way by a crash image (checkpoint without memtable) and replays, (4) follower wiped mid-way and rebuilt from a snapshot (chunk 64B..1MiB) plus the log tail, (5) a fresh database folded over the leader's log, (6) a replica that takes explicit flushes at random offsets; " +
			"non-trivial = all of routes 3,4,5 took place and the sequence had sessions, sequence keys and a >100-key range; distinct = request trace",
		MinNontrivial:    func(tier string) int { return tierN(tier, 15, 250) },
		RequiredCounters: []string{"route_pairs_compared", "crash_image_restarts", "snapshot_rebuilds", "folds", "explicit_flushes"},
		CaseTimeoutS:     240,
		Weight:           2,
	})
	core.Register(&core.Part{
		Name: "C07.images", Prop: "C07", Race: true,
		Cases: func(tier string) int { return tierN(tier, 10, 150) },
		Run:   runC07Images,
		Rule: "an RF=1 leader (real WAL, Pebble without its own WAL) under 1..8 concurrent writers with explicit flushes at random offsets; at EVERY hit of the hooks db.apply.before / db.apply.after / db.term.committed / db.term.flushed (capped at 60 per scenario, evenly spread) the goroutine at the crash point is held while a crash image is taken (Pebble checkpoint = durable state without memtable, plus a copy of the WAL directory); " +
			"every image is then opened raw (its commit offset c must not exceed its log, its dump must equal a fresh database folded over its log [0..c]) and through the real restart path (NewTerm+BecomeLeader: state must equal the fold of the whole image log, every applied offset consecutive from c+1); online: applied offsets consecutive per database instance; " +
			"non-trivial = images with >= 3 different commit offsets and >= 1 image taken between apply.before and apply.after of an in-flight write; distinct = (writers, image commit offsets)",
		MinNontrivial:    func(tier string) int { return tierN(tier, 6, 90) },
		RequiredCounters: []string{"crash_images", "images_raw_checked", "images_restart_checked", "apply_events"},
		CaseTimeoutS:     240,
		Weight:           2,
	})
	core.Meta["C07"] = core.PropMeta{Level: "fault_enumeration", Assumptions: []string{
		"a Pebble checkpoint of a DisableWAL database is exactly what a process crash leaves on disk (verified: keys written after the last flush are absent)",
		"the WAL directory copied while the goroutine at the crash point is held is what a process crash leaves (mmap content is in the page cache); power loss of unsynced WAL pages is C10's side",
	}}
}

type checkpointer interface {
	VerifCheckpoint(dir string) error
	VerifFlushCount() int64
}

// foldWal applies the entries [first..upTo] of a WAL to a fresh database and returns its canonical dump.
func foldWal(w wal.Wal, upTo int64, scratch string, notifications ...bool) (map[string]string, int, error) {
	_ = os.RemoveAll(scratch)
	f, err := shard.NewKVFactory(scratch)
	if err != nil {
		return nil, 0, err
	}
	defer func() {
		_ = f.Close()
		_ = os.RemoveAll(scratch)
	}()
	db, err := kv.NewDB(shard.Namespace, 0, f, time.Hour, time2.SystemClock)
	if err != nil {
		return nil, 0, err
	}
	defer db.Close()
	if len(notifications) > 0 {
		// the term options of the shard, as every replica was told them
		db.EnableNotifications(notifications[0])
	}
	applied := 0
	if w.LastOffset() >= 0 && upTo >= 0 {
		rd, err := w.NewReader(w.FirstOffset() - 1)
		if err != nil {
			return nil, 0, err
		}
		defer rd.Close()
		for rd.HasNext() {
			e, err := rd.ReadNext()
			if err != nil {
				return nil, applied, err
			}
			if e.Offset > upTo {
				break
			}
			lev := &proto.LogEntryValue{}
			if err := lev.UnmarshalVT(e.Value); err != nil {
				return nil, applied, err
			}
			for _, wr := range lev.GetRequests().Writes {
				if _, err := db.ProcessWrite(wr, e.Offset, e.Timestamp, server.WrapperUpdateOperationCallback); err != nil {
					return nil, applied, fmt.Errorf("offset %d: %w", e.Offset, err)
				}
			}
			applied++
		}
	}
	d, err := shard.CanonicalDump(f.KV(0))
	return d, applied, err
}

// ---- C06 ----

type c06gen struct {
	rng      *rand.Rand
	sessions []int64
	n        int
	feat     map[string]bool
	seqs     map[string][]uint64 // live generated suffixes per sequence prefix, ascending
}

func (g *c06gen) next(big bool) *proto.WriteRequest {
	g.n++
	req := &proto.WriteRequest{Shard: pb.Int64(0)}
	keys := []string{"a", "b", "a/b", "a/c", "a.b", "a0", "c/d/e", "k1", "k2", "k3"}
	val := func() []byte {
		if big && g.rng.IntN(4) == 0 {
			return []byte(strings.Repeat(fmt.Sprintf("%08d", g.n), 4000))
		}
		return []byte(fmt.Sprintf("v%d", g.n))
	}
	for i := g.rng.IntN(4); i >= 0; i-- {
		p := &proto.PutRequest{Key: keys[g.rng.IntN(len(keys))], Value: val()}
		switch g.rng.IntN(8) {
		case 0:
			p.ExpectedVersionId = pb.Int64(-1)
		case 1:
			p.ExpectedVersionId = pb.Int64(g.rng.Int64N(int64(g.n) + 1))
		case 2:
			if len(g.sessions) > 0 {
				p.SessionId = pb.Int64(g.sessions[g.rng.IntN(len(g.sessions))])
				g.feat["ephemeral"] = true
			}
		case 3:
			p.SecondaryIndexes = []*proto.SecondaryIndex{{IndexName: []string{"ia", "ib"}[g.rng.IntN(2)], SecondaryKey: fmt.Sprintf("s%d", g.rng.IntN(5))}}
			g.feat["index"] = true
		case 4:
			p.Key = []string{"sq", "sq/x"}[g.rng.IntN(2)]
			p.PartitionKey = pb.String("pk")
			p.SequenceKeyDelta = []uint64{uint64(1 + g.rng.IntN(3))}
			g.feat["sequence"] = true
			if g.seqs == nil {
				g.seqs = map[string][]uint64{}
			}
			last := uint64(0)
			if l := g.seqs[p.Key]; len(l) > 0 {
				last = l[len(l)-1]
			}
			g.seqs[p.Key] = append(g.seqs[p.Key], last+p.SequenceKeyDelta[0])
		case 5:
			p.ClientIdentity = pb.String("id")
		}
		req.Puts = append(req.Puts, p)
	}
	if g.rng.IntN(4) == 0 {
		req.Deletes = append(req.Deletes, &proto.DeleteRequest{Key: keys[g.rng.IntN(len(keys))]})
	}
	if g.rng.IntN(10) == 0 {
		req.DeleteRanges = append(req.DeleteRanges, &proto.DeleteRangeRequest{StartInclusive: "a", EndExclusive: "b"})
	}
	if g.rng.IntN(8) == 0 {
		// the newest generated key of a sequence is deleted: the next one is computed from what is left
		for _, pfx := range []string{"sq", "sq/x"} {
			if l := g.seqs[pfx]; len(l) > 0 && g.rng.IntN(2) == 0 {
				req.Deletes = append(req.Deletes, &proto.DeleteRequest{Key: fmt.Sprintf("%s-%020d", pfx, l[len(l)-1])})
				g.seqs[pfx] = l[:len(l)-1]
				g.feat["sequence-head-deleted"] = true
				break
			}
		}
	}
	return req
}

func runC06Routes(tier string, seed uint64, idx int) core.Result {
	r := core.NewR("C06.routes", idx)
	rng := core.CaseSeed(seed, "C06.routes", idx)
	vhook.Clear()
	defer vhook.Clear()
	if os.Getenv("VERIF_TRACE_CLOSE") != "" {
		vhook.Set("pebble.close", func(_ string, args ...any) {
			buf := make([]byte, 8192)
			buf = buf[:runtime.Stack(buf, false)]
			fmt.Fprintf(os.Stderr, "PEBBLE-CLOSE %p at %s\n%s\n", args[0], time.Now().Format("15:04:05.000000"), buf)
		})
	}
	oldChunk := kv.MaxSnapshotChunkSize
	kv.MaxSnapshotChunkSize = []int64{64, 1024, 64 * 1024, 1024 * 1024}[rng.IntN(4)]
	defer func() { kv.MaxSnapshotChunkSize = oldChunk }()
	// every fourth case runs with notifications disabled in the term options: no replica may record any, whatever
	// route it took
	notif := idx%4 != 3
	if !notif {
		r.Count("cases_with_notifications_disabled", 1)
	}
	c, leaderName, cleanup, ok := newCluster(r, 3, 1<<20, notif)
	if !ok {
		return r.Done()
	}
	defer cleanup()
	ln := c.Node(leaderName)
	lc, err := ln.Leader()
	if err != nil {
		r.Inconclusive(err.Error())
		return r.Done()
	}
	viol := func(clause, detail string, trace []string) {
		r.Violate("C06/"+clause, detail, map[string]any{"trace": trace})
	}
	n := 120
	big := false
	if tier == "thorough" && rng.IntN(3) == 0 {
		n = 300 + rng.IntN(700)
		big = true
	}
	g := &c06gen{rng: rng, feat: map[string]bool{}}
	var trace []string
	write := func(req *proto.WriteRequest) bool {
		ctx, cancel := context.WithTimeout(context.Background(), 20*time.Second)
		defer cancel()
		_, err := lc.WriteBlock(ctx, req)
		if err != nil {
			r.Inconclusive("write failed: " + scrubErr(err))
			return false
		}
		return true
	}
	term := int64(1)
	// a node that restarted or lost its disk comes back through a new election, as the coordinator would do it
	reelect := func() bool {
		term++
		heads := c.Fence(term, c.Nodes)
		if len(heads) != 3 {
			r.Inconclusive(fmt.Sprintf("only %d nodes fenced in term %d", len(heads), term))
			return false
		}
		best := rc.PickLeader(heads)
		newLeader := best[0]
		for _, b := range best {
			if b == leaderName {
				newLeader = b
			}
		}
		if err := c.Install(term, newLeader, 3, heads); err != nil {
			viol("reelection-failed", scrubErr(err), trace)
			return false
		}
		leaderName = newLeader
		ln = c.Node(leaderName)
		var lerr error
		if lc, lerr = ln.Leader(); lerr != nil {
			r.Inconclusive(lerr.Error())
			return false
		}
		trace = append(trace, fmt.Sprintf("election term %d -> %s", term, newLeader))
		return true
	}
	imageAt, wipeAt, bulkAt, bulkDelAt := n/4+rng.IntN(n/4), n/2+rng.IntN(n/4), rng.IntN(n/3), n/3+rng.IntN(n/3)
	imgDir := filepath.Join(c.Dir, "n1-image")
	haveImage := false
	backlogAt := n*3/4 + rng.IntN(n/8)
	for i := 0; i < n; i++ {
		switch {
		case i == backlogAt:
			// route 7: a node is elected while it still holds entries above its applied offset (a burst is in
			// flight when the election comes) and applies them through the become-leader path
			for j := 0; j < 16; j++ {
				p := &proto.PutRequest{Key: fmt.Sprintf("bl/%02d", j%9), Value: []byte(fmt.Sprintf("x%d", j)),
					SecondaryIndexes: []*proto.SecondaryIndex{{IndexName: "ia", SecondaryKey: fmt.Sprintf("t%d", j%5)}, {IndexName: "ib", SecondaryKey: fmt.Sprintf("u%d", j)}}}
				lc.Write(context.Background(), &proto.WriteRequest{Shard: pb.Int64(0), Puts: []*proto.PutRequest{p}},
					concurrent.NewOnce(func(*proto.WriteResponse) {}, func(error) {}))
			}
			term++
			applied := map[string]int64{}
			for _, nd := range c.Nodes {
				applied[nd.Name] = nd.AppliedOffset()
			}
			heads := c.Fence(term, c.Nodes)
			if len(heads) != 3 {
				r.Inconclusive(fmt.Sprintf("only %d nodes fenced in term %d", len(heads), term))
				return r.Done()
			}
			best := rc.PickLeader(heads)
			newLeader := best[0]
			for _, b := range best {
				if b != leaderName {
					newLeader = b
				}
			}
			backlog := heads[newLeader].Offset - applied[newLeader]
			if err := c.Install(term, newLeader, 3, heads); err != nil {
				viol("reelection-failed", scrubErr(err), trace)
				return r.Done()
			}
			leaderName = newLeader
			ln = c.Node(leaderName)
			var lerr error
			if lc, lerr = ln.Leader(); lerr != nil {
				r.Inconclusive(lerr.Error())
				return r.Done()
			}
			r.Count("elections_with_a_burst_in_flight", 1)
			r.Max("max:unapplied_entries_at_election", backlog)
			if backlog >= 2 {
				g.feat["elected-with-backlog"] = true
			}
			trace = append(trace, fmt.Sprintf("election term %d inside a burst -> %s with %d unapplied entries", term, newLeader, backlog))
		case i == bulkAt:
			for j := 0; j < 150; j += 50 {
				req := &proto.WriteRequest{Shard: pb.Int64(0)}
				for k := j; k < j+50; k++ {
					p := &proto.PutRequest{Key: fmt.Sprintf("bulk/%04d", k), Value: []byte("b")}
					if k%2 == 0 {
						p.SecondaryIndexes = []*proto.SecondaryIndex{{IndexName: "ia", SecondaryKey: fmt.Sprintf("s%d", k%7)}}
					}
					req.Puts = append(req.Puts, p)
				}
				if !write(req) {
					return r.Done()
				}
			}
			trace = append(trace, "bulk x150")
		case i == bulkDelAt:
			if !write(&proto.WriteRequest{Shard: pb.Int64(0), DeleteRanges: []*proto.DeleteRangeRequest{{StartInclusive: "bulk/0000", EndExclusive: "bulk/9999"}}}) {
				return r.Done()
			}
			g.feat["big-range"] = true
			trace = append(trace, "delete-range bulk")
		case i == imageAt:
			// route 3, step 1: what a crash of n1 would leave of its database now
			if cp, ok := c.Node("n1").KV().(checkpointer); ok {
				if err := cp.VerifCheckpoint(imgDir); err == nil {
					haveImage = true
					trace = append(trace, "crash-image of n1 db")
				}
			}
		case i == imageAt+10 && haveImage:
			// route 3, step 2: n1 "crashes": its database is replaced by the image, its log stays, it restarts and replays
			n1 := c.Node("n1")
			n1.Stop()
			dbDir := filepath.Join(c.Dir, "n1", "db", shard.Namespace, "shard-0")
			_ = os.RemoveAll(dbDir)
			if err := os.Rename(imgDir, dbDir); err != nil {
				r.Inconclusive("install image: " + err.Error())
				return r.Done()
			}
			if err := n1.Restart(); err != nil {
				viol("crash-image-restart-failed", scrubErr(err), trace)
				return r.Done()
			}
			if !reelect() {
				return r.Done()
			}
			r.Count("crash_image_restarts", 1)
			trace = append(trace, "n1 restarted from crash image")
		case i == wipeAt:
			// route 4: n2 loses everything and is rebuilt from a snapshot plus the tail
			n2 := c.Node("n2")
			if err := n2.Wipe(); err != nil {
				r.Inconclusive(err.Error())
				return r.Done()
			}
			if !reelect() {
				return r.Done()
			}
			r.Count("snapshot_rebuilds", 1)
			trace = append(trace, "n2 wiped and rejoined (snapshot)")
		}
		switch rng.IntN(15) {
		case 0:
			if len(g.sessions) < 3 {
				resp, err := lc.CreateSession(&proto.CreateSessionRequest{Shard: 0, SessionTimeoutMs: 300_000, ClientIdentity: "c"})
				if err != nil {
					r.Inconclusive("create session: " + scrubErr(err))
					return r.Done()
				}
				g.sessions = append(g.sessions, resp.SessionId)
				trace = append(trace, "create-session")
				continue
			}
		case 1:
			if len(g.sessions) > 0 {
				id := g.sessions[0]
				g.sessions = g.sessions[1:]
				if _, err := lc.CloseSession(&proto.CloseSessionRequest{Shard: 0, SessionId: id}); err != nil {
					r.Inconclusive("close session: " + scrubErr(err))
					return r.Done()
				}
				g.feat["session-close"] = true
				trace = append(trace, "close-session")
				continue
			}
		case 2:
			// route 6: an explicit flush on a replica at a random offset
			if nd := c.Node([]string{"n0", "n1", "n2"}[rng.IntN(3)]); !nd.Down() {
				func() {
					defer func() { _ = recover() }() // the handle may belong to a controller that was just replaced
					if k := nd.KV(); k != nil {
						_ = k.Flush()
						r.Count("explicit_flushes", 1)
					}
				}()
			}
		}
		req := g.next(big)
		if !write(req) {
			return r.Done()
		}
		trace = append(trace, fmt.Sprintf("w(%dp,%dd,%dr)", len(req.Puts), len(req.Deletes), len(req.DeleteRanges)))
	}
	// two trailing writes so that the followers learn the commit offset of everything before them
	for i := 0; i < 2; i++ {
		if !write(&proto.WriteRequest{Shard: pb.Int64(0), Puts: []*proto.PutRequest{{Key: "zz-tail", Value: []byte{byte(i)}}}}) {
			return r.Done()
		}
	}
	// wait until every follower has applied up to leader commit - 1
	ls, _ := ln.GetStatus()
	dl := time.Now().Add(30 * time.Second)
	for {
		okAll := true
		for _, nd := range c.Nodes {
			st, err := nd.GetStatus()
			if err != nil || st.CommitOffset < ls.CommitOffset-1 || (nd.Name != leaderName && nd.AppliedOffset() != st.CommitOffset) {
				okAll = false
			}
		}
		if okAll {
			break
		}
		if time.Now().After(dl) {
			r.Inconclusive("followers did not catch up within 30s")
			return r.Done()
		}
		time.Sleep(2 * time.Millisecond)
	}
	// dumps per route, compared at equal applied offsets; the fold (route 5) provides a reference for every offset seen
	type rep struct {
		route  string
		commit int64
		dump   map[string]string
	}
	var reps []rep
	routeOf := map[string]string{"n0": "n0-live", "n1": "n1-live+crash-image-replay", "n2": "n2-snapshot+tail"}
	for _, nd := range c.Nodes {
		var d map[string]string
		var at int64
		for try := 0; ; try++ {
			at = nd.AppliedOffset()
			var err error
			if d, err = shard.CanonicalDump(nd.KV()); err != nil {
				r.Inconclusive("dump: " + err.Error())
				return r.Done()
			}
			if nd.AppliedOffset() == at {
				break // nothing was applied while the dump was taken
			}
			if try > 50 {
				r.Inconclusive("a replica kept applying entries while it was dumped")
				return r.Done()
			}
			time.Sleep(5 * time.Millisecond)
		}
		reps = append(reps, rep{routeOf[nd.Name], at, d})
	}
	seenCommit := map[int64]bool{}
	for _, rp := range append([]rep{}, reps...) {
		if seenCommit[rp.commit] {
			continue
		}
		seenCommit[rp.commit] = true
		// the fold needs a log that starts at offset 0: a node rebuilt from a snapshot only holds the tail
		var full wal.Wal
		for _, nd := range c.Nodes {
			if w := nd.Wal(); w != nil && w.FirstOffset() == 0 && w.LastOffset() >= rp.commit {
				full = w
				if nd.Name == leaderName {
					break
				}
			}
		}
		if full == nil {
			r.Count("folds_skipped_no_complete_log", 1)
			continue
		}
		d, applied, err := foldWal(full, rp.commit, filepath.Join(c.Dir, "fold"), notif)
		if err != nil {
			viol("fold-failed", fmt.Sprintf("folding the leader's log up to %d stopped after %d entries: %s", rp.commit, applied, scrubErr(err)), trace)
			return r.Done()
		}
		r.Count("folds", 1)
		reps = append(reps, rep{"fresh-db-folded-over-the-log", rp.commit, d})
	}
	for i := range reps {
		for j := i + 1; j < len(reps); j++ {
			if reps[i].commit != reps[j].commit {
				continue
			}
			r.Count("route_pairs_compared", 1)
			if diff := shard.DiffDumps(reps[i].dump, reps[j].dump); diff != "" {
				a, b := reps[i].route, reps[j].route
				viol("routes-disagree/"+a+"-vs-"+b, fmt.Sprintf("same applied offset %d, route %q vs route %q: %s", reps[i].commit, a, b, diff), trace)
			}
		}
	}
	if r.Get("crash_image_restarts") > 0 && r.Get("snapshot_rebuilds") > 0 && r.Get("folds") > 0 && g.feat["sequence"] && g.feat["big-range"] && (g.feat["ephemeral"] || g.feat["session-close"]) {
		r.Nontrivial()
	}
	r.FP(strings.Join(trace, ";"))
	if idx < 2 {
		t := trace
		if len(t) > 30 {
			t = t[:30]
		}
		r.Sample(map[string]any{"requests": n, "snapshot_chunk": kv.MaxSnapshotChunkSize, "trace_head": t, "routes": []string{"leader-live", "follower-live+crash-image-replay", "follower-snapshot+tail", "fresh-db-folded-over-the-log"}})
	}
	return r.Done()
}

// ---- C07 ----

type crashImage struct {
	dir     string
	point   string
	offset  int64
	flushes int64
}

func copyTree(src, dst string) error {
	return filepath.Walk(src, func(p string, info os.FileInfo, err error) error {
		if err != nil {
			return err
		}
		rel, _ := filepath.Rel(src, p)
		t := filepath.Join(dst, rel)
		if info.IsDir() {
			return os.MkdirAll(t, 0o755)
		}
		b, err := os.ReadFile(p)
		if err != nil {
			return err
		}
		return os.WriteFile(t, b, 0o644)
	})
}

func runC07Images(tier string, seed uint64, idx int) core.Result {
	r := core.NewR("C07.images", idx)
	rng := core.CaseSeed(seed, "C07.images", idx)
	vhook.Clear()
	defer vhook.Clear()
	root, err := os.MkdirTemp("", "c07-")
	if err != nil {
		r.Inconclusive(err.Error())
		return r.Done()
	}
	defer os.RemoveAll(root)
	l, err := shard.NewLeader(filepath.Join(root, "node"), 0, true)
	if err != nil {
		r.Violate("C07/node-cannot-start", "a fresh RF=1 node cannot become leader: "+scrubErr(err), nil)
		return r.Done()
	}
	closed := false
	defer func() {
		if !closed {
			l.Close()
		}
	}()
	writers := 1 + rng.IntN(8)
	perWriter := 12 + rng.IntN(20)
	total := writers * perWriter
	// crash points: every hit of the hooks, thinned to at most 60 images
	every := (total*2 + 59) / 60
	if every < 1 {
		every = 1
	}
	var hits atomic.Int64
	var images []crashImage
	var imgMu sync.Mutex
	var applyMu sync.Mutex
	lastApply := map[any]int64{}
	leaderKV := l.KVF.KV(0)
	takeImage := func(point string, off int64) {
		cp, ok := leaderKV.(checkpointer)
		if !ok {
			return
		}
		imgMu.Lock()
		defer imgMu.Unlock()
		dir := filepath.Join(root, fmt.Sprintf("img-%03d", len(images)))
		before := cp.VerifFlushCount()
		if err := cp.VerifCheckpoint(filepath.Join(dir, "db", shard.Namespace, "shard-0")); err != nil {
			return
		}
		if err := copyTree(filepath.Join(root, "node", "wal"), filepath.Join(dir, "wal")); err != nil {
			return
		}
		if cp.VerifFlushCount() != before {
			// a flush ran between the two copies: the pair is not one instant
			r.Count("images_discarded_flush_raced", 1)
			_ = os.RemoveAll(dir)
			return
		}
		images = append(images, crashImage{dir: dir, point: point, offset: off, flushes: before})
		r.Count("crash_images", 1)
	}
	for _, point := range []string{"db.apply.before", "db.apply.after", "db.term.committed", "db.term.flushed"} {
		pt := point
		vhook.Set(pt, func(_ string, args ...any) {
			if len(args) < 2 || args[0] != any(leaderKV) {
				return
			}
			off, _ := args[1].(int64)
			if pt == "db.apply.before" {
				applyMu.Lock()
				prev, seen := lastApply[args[0]]
				lastApply[args[0]] = off
				applyMu.Unlock()
				r.Count("apply_events", 1)
				if seen && off != prev+1 {
					r.Violate("C07/apply-not-consecutive/live", fmt.Sprintf("leader database applied offset %d right after %d", off, prev), nil)
				}
			}
			if hits.Add(1)%int64(every) == 0 {
				takeImage(pt, off)
			}
		})
	}
	var wg sync.WaitGroup
	var failed atomic.Int64
	flushEvery := 5 + rng.IntN(20)
	var done atomic.Int64
	for w := 0; w < writers; w++ {
		wg.Add(1)
		go func(w int) {
			defer wg.Done()
			for i := 0; i < perWriter; i++ {
				req := &proto.WriteRequest{Puts: []*proto.PutRequest{{Key: fmt.Sprintf("k%d", (w*7+i)%23), Value: []byte(fmt.Sprintf("w%d-%d", w, i))}}}
				if i%5 == 4 {
					req.Deletes = []*proto.DeleteRequest{{Key: fmt.Sprintf("k%d", (w+i)%23)}}
				}
				if i%9 == 8 {
					req.Puts = append(req.Puts, &proto.PutRequest{Key: "seq", Value: []byte("s"), PartitionKey: pb.String("p"), SequenceKeyDelta: []uint64{1}})
				}
				if _, err := l.Write(req); err != nil {
					failed.Add(1)
					return
				}
				if n := done.Add(1); n%int64(flushEvery) == 0 {
					_ = leaderKV.Flush()
					r.Count("explicit_flushes", 1)
				}
			}
		}(w)
	}
	wg.Wait()
	if failed.Load() > 0 {
		r.Inconclusive("a write failed")
		return r.Done()
	}
	vhook.Clear()
	l.Close()
	closed = true

	commits := map[int64]bool{}
	midApply := 0
	for i, img := range images {
		wit := map[string]any{"image": i, "point": img.point, "at_offset": img.offset, "writers": writers}
		// (a) raw: the database as the crash left it
		f, err := shard.NewKVFactory(filepath.Join(img.dir, "db"))
		if err != nil {
			r.Violate("C07/image-unopenable/"+img.point, scrubErr(err), wit)
			continue
		}
		db, err := kv.NewDB(shard.Namespace, 0, f, time.Hour, time2.SystemClock)
		if err != nil {
			_ = f.Close()
			r.Violate("C07/image-unopenable/"+img.point, scrubErr(err), wit)
			continue
		}
		c, _ := db.ReadCommitOffset()
		rawDump, derr := shard.CanonicalDump(f.KV(0))
		_ = db.Close()
		_ = f.Close()
		wf := shard.NewWalFactory(filepath.Join(img.dir, "wal"), 0)
		w, err := wf.NewWal(shard.Namespace, 0, &constCommit{c})
		if err != nil {
			r.Violate("C07/image-wal-unopenable/"+img.point, scrubErr(err), wit)
			continue
		}
		commits[c] = true
		if img.point == "db.apply.before" || img.point == "db.apply.after" {
			midApply++
		}
		wit["image_commit_offset"], wit["image_wal_last"] = c, w.LastOffset()
		if c > w.LastOffset() {
			r.Violate("C07/commit-offset-ahead-of-log/"+img.point, fmt.Sprintf("image database says commit offset %d, image log ends at %d", c, w.LastOffset()), wit)
		}
		if derr == nil {
			ref, _, ferr := foldWal(w, c, filepath.Join(root, "fold"))
			if ferr != nil {
				r.Violate("C07/fold-failed", scrubErr(ferr), wit)
			} else if diff := shard.DiffDumps(rawDump, ref); diff != "" {
				r.Violate("C07/image-state-is-not-the-fold-of-its-log/"+img.point, fmt.Sprintf("image taken at %s (offset %d): database with commit offset %d differs from log[0..%d] applied in order: %s", img.point, img.offset, c, c, diff), wit)
			}
			r.Count("images_raw_checked", 1)
		}
		refAll, _, ferr := foldWal(w, w.LastOffset(), filepath.Join(root, "fold"))
		walLast := w.LastOffset()
		_ = w.Close()
		_ = wf.Close()
		if ferr != nil {
			continue
		}
		// (b) the real restart path on the image
		applyMu.Lock()
		lastApply = map[any]int64{}
		applyMu.Unlock()
		var firstApplied atomic.Int64
		firstApplied.Store(-2)
		vhook.Set("db.apply.before", func(_ string, args ...any) {
			off := args[1].(int64)
			firstApplied.CompareAndSwap(-2, off)
			applyMu.Lock()
			prev, seen := lastApply[args[0]]
			lastApply[args[0]] = off
			applyMu.Unlock()
			if seen && off != prev+1 {
				r.Violate("C07/apply-not-consecutive/replay", fmt.Sprintf("replay after restart applied offset %d right after %d", off, prev), wit)
			}
		})
		nl := &shard.Leader{Dir: img.dir, Shard: 0, Notif: true, Term: 5}
		var rerr error
		nl.KVF, rerr = shard.NewKVFactory(filepath.Join(img.dir, "db"))
		if rerr == nil {
			nl.WalF = shard.NewWalFactory(filepath.Join(img.dir, "wal"), 0)
			rerr = nl.Restart()
		}
		if rerr != nil {
			r.Violate("C07/image-restart-failed/"+img.point, scrubErr(rerr), wit)
			vhook.Clear()
			continue
		}
		if fa := firstApplied.Load(); fa != -2 && fa != c+1 {
			r.Violate("C07/replay-does-not-resume-at-c+1", fmt.Sprintf("image commit offset %d, replay started at %d", c, fa), wit)
		}
		after, derr2 := shard.CanonicalDump(nl.KVF.KV(0))
		nl.Close()
		vhook.Clear()
		if derr2 == nil {
			if diff := shard.DiffDumps(after, refAll); diff != "" {
				r.Violate("C07/state-after-replay-is-not-the-fold-of-the-log/"+img.point, fmt.Sprintf("image at %s (commit %d, log to %d): after restart and replay the database differs from log[0..%d] applied in order: %s", img.point, c, walLast, walLast, diff), wit)
			}
			r.Count("images_restart_checked", 1)
		}
		if r.Violations() > 3 {
			break
		}
	}
	r.Max("max:distinct_image_commit_offsets", int64(len(commits)))
	if len(commits) >= 3 && midApply >= 1 {
		r.Nontrivial()
	}
	var cs []string
	for c := range commits {
		cs = append(cs, fmt.Sprint(c))
	}
	r.FP(writers, perWriter, flushEvery, len(images), strings.Join(cs, ","))
	if idx < 2 {
		var pts []string
		for _, im := range images {
			pts = append(pts, fmt.Sprintf("%s@%d", im.point, im.offset))
		}
		if len(pts) > 12 {
			pts = pts[:12]
		}
		r.Sample(map[string]any{"writers": writers, "writes": total, "flush_every": flushEvery, "images": len(images), "image_commit_offsets": cs, "crash_points": pts})
	}
	return r.Done()
}

type constCommit struct{ v int64 }

func (c *constCommit) CommitOffset() int64 { return c.v }

var _ = rc.Namespace
