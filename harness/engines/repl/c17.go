package repl

import (
	"context"
	"fmt"
	"sync"
	"time"

	pb "google.golang.org/protobuf/proto"

	"github.com/oxia-db/oxia/common/concurrent"
	"github.com/oxia-db/oxia/proto"
	"github.com/oxia-db/oxia/server"

	"verif/lib/core"
	rc "verif/lib/replcluster"
)

// C17 on a replicated shard: what RF=1 cannot show — requests that are appended but not committed, a subscriber
// that starts "now" while such requests exist, and a subscriber that resumes on another node after an election.

func init() {
	core.Register(&core.Part{
		Name: "C17.repl", Prop: "C17", Race: true,
		Cases: func(tier string) int { return tierN(tier, 30, 800) },
		Run:   runC17Repl,
		Rule: "3 real nodes with notifications on: k committed writes, then both follower links stall and 1..5 more writes are appended but cannot commit; a subscriber without start offset and one resuming from the last committed offset are opened on the leader; the links heal, the writes commit; then another node is elected and both subscribers resume there with the last offset they saw while more writes are committed; " +
			"oracle: the position handed to a subscriber that starts 'now' is not beyond the commit offset at that moment; nothing with an offset above the commit offset is delivered while the writes are uncommitted; afterwards every subscriber receives exactly one batch per offset after its position, in order, each naming the key written at that offset; after the election the resumed streams continue with the next offset without loss or duplicate; " +
			"non-trivial = >= 2 uncommitted writes existed when the subscribers were opened and the election moved the leader; distinct = (k, uncommitted, later writes)",
		MinNontrivial:    func(tier string) int { return tierN(tier, 12, 300) },
		RequiredCounters: []string{"batches_checked", "subscribers_opened_with_uncommitted_entries", "resumptions_on_a_new_leader"},
		CaseTimeoutS:     120,
	})
}

type rsub struct {
	cancel context.CancelFunc
	mu     sync.Mutex
	got    []*proto.NotificationBatch
	done   chan error
}

func openRSub(lc server.LeaderController, start *int64) *rsub {
	ctx, cancel := context.WithCancel(context.Background())
	s := &rsub{cancel: cancel, done: make(chan error, 1)}
	lc.GetNotifications(ctx, &proto.NotificationsRequest{Shard: 0, StartOffsetExclusive: start},
		concurrent.NewStreamOnce(func(b *proto.NotificationBatch) error {
			s.mu.Lock()
			s.got = append(s.got, b)
			s.mu.Unlock()
			return nil
		}, func(err error) { s.done <- err }))
	return s
}

func (s *rsub) snapshot() []*proto.NotificationBatch {
	s.mu.Lock()
	defer s.mu.Unlock()
	return append([]*proto.NotificationBatch{}, s.got...)
}

// waitCount waits (bounded; the bound only yields inconclusive) until n batches have arrived.
func (s *rsub) waitCount(n int) bool {
	dl := time.Now().Add(10 * time.Second)
	for time.Now().Before(dl) {
		s.mu.Lock()
		l := len(s.got)
		s.mu.Unlock()
		if l >= n {
			return true
		}
		time.Sleep(300 * time.Microsecond)
	}
	return false
}

func runC17Repl(tier string, seed uint64, idx int) core.Result {
	r := core.NewR("C17.repl", idx)
	rng := core.CaseSeed(seed, "C17.repl", idx)
	c, leaderName, cleanup, ok := newCluster(r, 3, 1<<20, true)
	if !ok {
		return r.Done()
	}
	defer cleanup()
	lc, err := c.Node(leaderName).Leader()
	if err != nil {
		r.Inconclusive(err.Error())
		return r.Done()
	}
	keyAt := map[int64]string{}
	next := int64(0)
	mkReq := func() *proto.WriteRequest {
		k := fmt.Sprintf("k%d", next)
		keyAt[next] = k
		next++
		return &proto.WriteRequest{Shard: pb.Int64(0), Puts: []*proto.PutRequest{{Key: k, Value: []byte("v")}}}
	}
	commit := func(n int) bool {
		for i := 0; i < n; i++ {
			ctx, cancel := context.WithTimeout(context.Background(), 10*time.Second)
			_, err := lc.WriteBlock(ctx, mkReq())
			cancel()
			if err != nil {
				r.Inconclusive("write failed: " + scrubErr(err))
				return false
			}
		}
		return true
	}
	k := 1 + rng.IntN(8)
	if !commit(k) {
		return r.Done()
	}
	lastCommitted := next - 1
	// both followers stop hearing from the leader; more writes are appended and stay uncommitted
	for _, n := range c.Nodes {
		if n.Name != leaderName {
			c.Link(leaderName, n.Name).SetStalled(true)
		}
	}
	u := 1 + rng.IntN(5)
	var wg sync.WaitGroup
	var failed sync.Map
	for i := 0; i < u; i++ {
		wg.Add(1)
		off := next
		lc.Write(context.Background(), mkReq(), concurrent.NewOnce(func(*proto.WriteResponse) { wg.Done() }, func(e error) { failed.Store(off, e); wg.Done() }))
	}
	// wait until they are in the leader's log (bounded)
	for dl := time.Now().Add(5 * time.Second); ; {
		st, err := c.Node(leaderName).GetStatus()
		if err == nil && st.HeadOffset == lastCommitted+int64(u) {
			if st.CommitOffset != lastCommitted {
				r.Inconclusive(fmt.Sprintf("the writes committed although the followers are cut off (commit %d)", st.CommitOffset))
				return r.Done()
			}
			break
		}
		if time.Now().After(dl) {
			r.Inconclusive("the uncommitted writes did not reach the leader's log")
			return r.Done()
		}
		time.Sleep(200 * time.Microsecond)
	}
	r.Count("subscribers_opened_with_uncommitted_entries", 2)
	subNow := openRSub(lc, nil)
	subResume := openRSub(lc, pb.Int64(lastCommitted))
	defer subNow.cancel()
	defer subResume.cancel()
	if !subNow.waitCount(1) {
		r.Inconclusive("the positioning batch of a subscriber without start offset did not arrive")
		return r.Done()
	}
	pos := subNow.snapshot()[0].Offset
	if pos > lastCommitted {
		r.Violate("C17/subscriber-positioned-beyond-the-commit-offset", fmt.Sprintf("commit offset %d, %d appended but uncommitted requests; a subscriber starting now was positioned at offset %d: the batches of the requests in between, once committed, are never delivered to it", lastCommitted, u, pos), nil)
		return r.Done()
	}
	// nothing about uncommitted requests may have been delivered (checked now, while they are still uncommitted)
	if st, err := c.Node(leaderName).GetStatus(); err == nil && st.CommitOffset == lastCommitted {
		for _, s := range []*rsub{subNow, subResume} {
			for _, b := range s.snapshot() {
				if b.Offset > lastCommitted {
					r.Violate("C17/batch-delivered-for-an-uncommitted-request", fmt.Sprintf("commit offset %d, a batch with offset %d was delivered", lastCommitted, b.Offset), nil)
					return r.Done()
				}
			}
		}
		r.Count("uncommitted_windows_checked", 1)
	}
	// heal: the writes commit
	for _, n := range c.Nodes {
		c.Link(leaderName, n.Name).SetStalled(false)
	}
	done := make(chan struct{})
	go func() { wg.Wait(); close(done) }()
	select {
	case <-done:
	case <-time.After(15 * time.Second):
		r.Inconclusive("the stalled writes did not complete after the links healed")
		return r.Done()
	}
	nfail := 0
	failed.Range(func(_, _ any) bool { nfail++; return true })
	if nfail > 0 {
		r.Inconclusive("some of the stalled writes failed")
		return r.Done()
	}
	head := next - 1
	check := func(name string, s *rsub, from int64, upTo int64, skipFirst bool) (int64, bool) {
		want := int(upTo - from)
		extra := 0
		if skipFirst {
			extra = 1
		}
		if !s.waitCount(want + extra) {
			got := s.snapshot()
			var offs []int64
			for _, b := range got {
				offs = append(offs, b.Offset)
			}
			r.Violate("C17/batches-missing/"+name, fmt.Sprintf("positioned at %d, requests up to offset %d are committed; batches received: %v", from, upTo, offs), nil)
			return from, false
		}
		got := s.snapshot()[extra:]
		exp := from + 1
		for _, b := range got {
			if b.Offset != exp {
				r.Violate("C17/batch-order/"+name, fmt.Sprintf("expected the batch of offset %d next, got %d", exp, b.Offset), nil)
				return from, false
			}
			if _, ok := b.Notifications[keyAt[b.Offset]]; !ok || len(b.Notifications) != 1 {
				r.Violate("C17/batch-content/"+name, fmt.Sprintf("batch %d should name exactly %q, it names %d keys", b.Offset, keyAt[b.Offset], len(b.Notifications)), nil)
				return from, false
			}
			r.Count("batches_checked", 1)
			exp++
		}
		return exp - 1, true
	}
	lastNow, ok1 := check("subscriber-without-start-offset", subNow, pos, head, true)
	lastRes, ok2 := check("subscriber-resuming-from-the-commit-offset", subResume, lastCommitted, head, false)
	if !ok1 || !ok2 {
		return r.Done()
	}
	subNow.cancel()
	subResume.cancel()
	// an election moves the leader; both subscribers resume there
	heads := c.Fence(2, c.Nodes)
	if len(heads) != 3 {
		r.Inconclusive("fence failed")
		return r.Done()
	}
	best := rc.PickLeader(heads)
	newLeader := best[0]
	for _, b := range best {
		if b != leaderName {
			newLeader = b
		}
	}
	if err := c.Install(2, newLeader, 3, heads); err != nil {
		r.Inconclusive("install: " + scrubErr(err))
		return r.Done()
	}
	moved := newLeader != leaderName
	leaderName = newLeader
	if lc, err = c.Node(leaderName).Leader(); err != nil {
		r.Inconclusive(err.Error())
		return r.Done()
	}
	s1 := openRSub(lc, pb.Int64(lastNow))
	back := int64(rng.IntN(2)) // one of them resumes one batch earlier
	s2 := openRSub(lc, pb.Int64(lastRes-back))
	defer s1.cancel()
	defer s2.cancel()
	r.Count("resumptions_on_a_new_leader", 2)
	v := 1 + rng.IntN(6)
	if !commit(v) {
		return r.Done()
	}
	head = next - 1
	if _, ok := check("resumed-on-the-new-leader", s1, lastNow, head, false); !ok {
		return r.Done()
	}
	if _, ok := check("resumed-on-the-new-leader", s2, lastRes-back, head, false); !ok {
		return r.Done()
	}
	if u >= 2 && moved {
		r.Nontrivial()
	}
	r.FP(k, u, v)
	if idx < 2 {
		r.Sample(map[string]any{"committed_first": k, "uncommitted_when_subscribed": u, "after_election": v, "position_given": pos, "commit_offset_then": lastCommitted})
	}
	return r.Done()
}
