// Package repl drives real leader/follower controllers wired by harness-owned streams (lib/replcluster):
// C08 (write pipeline), C03 (ack => identical durable prefix), C04 (fencing), C06 (replica determinism), C07 (crash atomicity).
package repl

import (
	"context"
	"fmt"
	"math/rand/v2"
	"os"
	"sort"
	"strings"
	"sync"
	"sync/atomic"
	"time"

	pb "google.golang.org/protobuf/proto"

	"github.com/oxia-db/oxia/common/concurrent"
	"github.com/oxia-db/oxia/common/vhook"
	"github.com/oxia-db/oxia/proto"
	"github.com/oxia-db/oxia/server"
	"github.com/oxia-db/oxia/server/wal"

	"verif/lib/core"
	rc "verif/lib/replcluster"
)

func tierN(tier string, quick, thorough int) int {
	if tier == "thorough" {
		return thorough
	}
	return quick
}

func init() {
	core.Register(&core.Part{
		Name: "C08.pipeline", Prop: "C08", Race: true,
		Cases: func(tier string) int { return tierN(tier, 60, 1500) },
		Run:   runC08Pipeline,
		Rule: "RF in {1,2,3,5}; 2..32 concurrent writers x 10..50 writes through WriteBlock and Write(callback) on a real leader with real followers over harness-owned streams; the hook leader.write.allocated (between offset allocation and WAL append) yields/sleeps, acks are delayed per link, one cursor is cut and re-attached mid-run; " +
			"oracle: every write succeeds (watchdog => inconclusive), each caller reads back its own version id, leader WAL offsets are contiguous with distinct requests, db.apply offsets are consecutive, qat.commit never decreases, never exceeds the head, never exceeds what >= RF/2 followers have acked for the whole prefix, and commit == head at quiescence; " +
			"non-trivial = >= 2 writes were in flight at the same time (the number of writers simultaneously between allocation and append is reported as max:writers_in_window; it is 1 when allocation and append are atomic); distinct = (RF, writers, observed max overlap, commit trace hash)",
		MinNontrivial:    func(tier string) int { return tierN(tier, 30, 700) },
		RequiredCounters: []string{"writes_ok", "apply_events", "commit_events", "max:writes_in_flight", "group_syncs_checked"},
		CaseTimeoutS:     150,
		Weight:           2,
	})
	core.Register(&core.Part{
		Name: "C08.qat", Prop: "C08",
		Cases: func(tier string) int { return tierN(tier, 100, 3000) },
		Run:   runC08Qat,
		Rule: "NewQuorumAckTracker driven directly: RF 1..5, head advancing in steps, per-follower monotone ack sequences with duplicates in arbitrary cross-follower interleaving, cursors attached late with an ackOffset; after every event commit must equal max{o <= head : #{f : acked_f >= o} >= RF/2} and never decrease; " +
			"non-trivial = >= 2 followers interleaved with >= 1 duplicate; distinct = event sequence",
		MinNontrivial:    func(tier string) int { return tierN(tier, 50, 1500) },
		RequiredCounters: []string{"qat_events"},
	})
}

type applyMon struct {
	mu      sync.Mutex
	last    map[any]int64
	viol    string
	n       int64
	started bool
}

// newCluster creates rf nodes, elects n0 in term 1 and waits until it leads.
func newCluster(r *core.R, rf int, segSize int32, notif bool) (*rc.Cluster, string, func(), bool) {
	dir, err := os.MkdirTemp("", "repl-")
	if err != nil {
		r.Inconclusive(err.Error())
		return nil, "", nil, false
	}
	c, err := rc.New(dir, rf, segSize, notif)
	if err != nil {
		os.RemoveAll(dir)
		r.Inconclusive(err.Error())
		return nil, "", nil, false
	}
	cleanup := func() {
		c.Close()
		os.RemoveAll(dir)
	}
	heads := c.Fence(1, c.Nodes)
	if len(heads) != rf {
		cleanup()
		r.Violate("harness/fence-fresh-nodes", fmt.Sprintf("only %d of %d fresh nodes accepted NewTerm(1)", len(heads), rf), nil)
		return nil, "", nil, false
	}
	if err := c.Install(1, "n0", rf, heads); err != nil {
		cleanup()
		r.Violate("harness/become-leader-fresh", err.Error(), nil)
		return nil, "", nil, false
	}
	return c, "n0", cleanup, true
}

func runC08Pipeline(tier string, seed uint64, idx int) core.Result {
	r := core.NewR("C08.pipeline", idx)
	rng := core.CaseSeed(seed, "C08.pipeline", idx)
	rf := []int{1, 2, 3, 3, 5}[rng.IntN(5)]
	writers := 2 + rng.IntN(31)
	perWriter := 10 + rng.IntN(41)
	if writers*perWriter > 600 {
		perWriter = 600 / writers
	}
	vhook.Clear()
	defer vhook.Clear()

	// hook: widen the window between offset allocation and WAL append
	var inWindow, maxInWindow atomic.Int64
	hookRng := rand.New(rand.NewPCG(seed, uint64(idx)))
	var hookMu sync.Mutex
	vhook.Set("leader.write.allocated", func(string, ...any) {
		n := inWindow.Add(1)
		for {
			m := maxInWindow.Load()
			if n <= m || maxInWindow.CompareAndSwap(m, n) {
				break
			}
		}
		hookMu.Lock()
		d := hookRng.IntN(4)
		hookMu.Unlock()
		switch d {
		case 0:
		case 1:
			time.Sleep(time.Duration(50+d*100) * time.Microsecond)
		default:
			for i := 0; i < 3; i++ {
				yield()
			}
		}
		inWindow.Add(-1)
	})

	// every third case uses 4 KiB log segments: rollovers happen while group syncs are in flight
	segSize := []int32{0, 0, 4096}[idx%3]
	if segSize != 0 {
		r.Count("cases_with_small_log_segments", 1)
	}
	c, leaderName, cleanup, ok := newCluster(r, rf, segSize, false)
	if !ok {
		return r.Done()
	}
	defer cleanup()
	leaderNode := c.Node(leaderName)
	lc, err := leaderNode.Leader()
	if err != nil {
		r.Violate("harness/no-leader", err.Error(), nil)
		return r.Done()
	}
	leaderKV := any(leaderNode.KV())

	// monitors on hooks
	var monMu sync.Mutex
	lastApply := int64(-1)
	applyN, commitN := int64(0), int64(0)
	lastCommit := int64(-1)
	ackedUpTo := map[string]int64{}
	var commitTrace []int64
	violate := func(sig, detail string) {
		r.Violate("C08/"+sig, detail, map[string]any{"rf": rf, "writers": writers, "per_writer": perWriter})
	}
	vhook.Set("db.apply.before", func(_ string, args ...any) {
		if len(args) < 2 || args[0] != leaderKV {
			return
		}
		off := args[1].(int64)
		monMu.Lock()
		defer monMu.Unlock()
		applyN++
		if off != lastApply+1 {
			violate("apply-order", fmt.Sprintf("leader applied offset %d after %d", off, lastApply))
		}
		lastApply = off
	})
	// what a group sync of a log reports as synced may not include entries appended after its flush began
	var flushStart sync.Map // log -> last appended offset right before the flush
	var flushN atomic.Int64
	vhook.Set("wal.sync.before-flush", func(_ string, args ...any) {
		if len(args) < 1 {
			return
		}
		if w, ok := args[0].(wal.Wal); ok {
			if flushN.Add(1)%5 == 0 {
				time.Sleep(100 * time.Microsecond)
			}
			flushStart.Store(args[0], wal.VerifLastAppendedOffset(w))
		}
	})
	vhook.Set("wal.sync.flushed", func(_ string, args ...any) {
		if len(args) < 2 {
			return
		}
		synced := args[1].(int64)
		r.Count("group_syncs_checked", 1)
		if v, ok := flushStart.Load(args[0]); ok && synced > v.(int64) {
			violate("log-reports-as-synced-an-entry-appended-after-the-flush-began", fmt.Sprintf("a group sync whose flush began when offset %d was the last one appended reports offset %d as synced", v.(int64), synced))
		}
	})
	vhook.Set("qat.commit", func(_ string, args ...any) {
		if len(args) < 3 {
			return
		}
		cOff, head := args[1].(int64), args[2].(int64)
		monMu.Lock()
		defer monMu.Unlock()
		commitN++
		commitTrace = append(commitTrace, cOff)
		if cOff < lastCommit {
			evs := c.Events()
			var tail []string
			for _, e := range evs[max(0, len(evs)-400):] {
				if e.Kind == "ack-delivered" && (e.Offset == cOff || e.Offset == lastCommit) || strings.HasPrefix(e.Kind, "stream") {
					tail = append(tail, fmt.Sprintf("%d:%s:%s:%d:s%d", e.Seq, e.Kind, e.Peer+e.Node, e.Offset, e.Aux))
				}
			}
			violate("commit-decreased", fmt.Sprintf("commit offset went from %d to %d; rf=%d; related events: %v", lastCommit, cOff, rf, tail))
		}
		if cOff > head {
			violate("commit-beyond-head", fmt.Sprintf("commit offset %d > head %d", cOff, head))
		}
		if need := rf / 2; need > 0 {
			have := 0
			for _, a := range ackedUpTo {
				if a >= cOff {
					have++
				}
			}
			if have < need {
				violate("commit-without-quorum", fmt.Sprintf("commit offset %d but only %d followers (need %d) have acknowledged the whole prefix: %v", cOff, have, need, ackedUpTo))
			}
		}
		lastCommit = cOff
	})
	c.AddMonitor(&ackTracker{mu: &monMu, acked: ackedUpTo})

	// link perturbation
	for i := 1; i < rf; i++ {
		if rng.IntN(2) == 0 {
			c.Link(fmt.Sprintf("n%d", i), leaderName) // acks flow on the same stream object; delay applies at the receiver
			c.Link(leaderName, fmt.Sprintf("n%d", i)).SetDelay(time.Duration(rng.IntN(300)) * time.Microsecond)
		}
	}
	cutAt := -1
	if rf > 2 && rng.IntN(2) == 0 {
		cutAt = rng.IntN(writers * perWriter)
	}

	type wres struct {
		key     string
		version int64
	}
	results := make([][]wres, writers)
	var done atomic.Int64
	var wg sync.WaitGroup
	var failed atomic.Int64
	var inFlight, maxInFlight atomic.Int64
	for w := 0; w < writers; w++ {
		wg.Add(1)
		go func(w int) {
			defer wg.Done()
			useCallback := w%3 == 0
			for i := 0; i < perWriter; i++ {
				key := fmt.Sprintf("w%d-%d", w, i)
				req := &proto.WriteRequest{Shard: pb.Int64(0), Puts: []*proto.PutRequest{{Key: key, Value: []byte(key)}}}
				var resp *proto.WriteResponse
				var err error
				if n := inFlight.Add(1); n > maxInFlight.Load() {
					maxInFlight.Store(n)
				}
				if useCallback {
					ch := make(chan error, 1)
					lc.Write(context.Background(), req, concurrent.NewOnce(func(t *proto.WriteResponse) { resp = t; ch <- nil }, func(e error) { ch <- e }))
					select {
					case err = <-ch:
					case <-time.After(60 * time.Second):
						err = errStuck
					}
				} else {
					rch := make(chan error, 1)
					go func() {
						var e error
						resp, e = lc.WriteBlock(context.Background(), req)
						rch <- e
					}()
					select {
					case err = <-rch:
					case <-time.After(60 * time.Second):
						err = errStuck
					}
				}
				inFlight.Add(-1)
				n := done.Add(1)
				if int(n) == cutAt {
					c.Link(leaderName, fmt.Sprintf("n%d", 1+w%(rf-1))).Cut()
					r.Count("cursor_cuts", 1)
				}
				if err == errStuck {
					r.Inconclusive("a write did not complete within 60s")
					failed.Add(1)
					return
				}
				if err != nil {
					failed.Add(1)
					violate("write-failed/"+scrubErr(err), fmt.Sprintf("writer %d write %d failed with a healthy quorum: %v", w, i, err))
					return
				}
				if len(resp.Puts) != 1 || resp.Puts[0].Status != proto.Status_OK || resp.Puts[0].Version == nil {
					failed.Add(1)
					violate("write-bad-response", fmt.Sprintf("writer %d write %d: response %v", w, i, resp))
					return
				}
				results[w] = append(results[w], wres{key, resp.Puts[0].Version.VersionId})
				r.Count("writes_ok", 1)
			}
		}(w)
	}
	wg.Wait()
	r.Max("max:writers_in_window", maxInWindow.Load())
	r.Max("max:writes_in_flight", maxInFlight.Load())
	total := int64(0)
	for _, rs := range results {
		total += int64(len(rs))
	}
	if failed.Load() == 0 {
		// own-response check: the version id each caller was given is the one its own key carries
		var gets []*proto.GetRequest
		var exp []wres
		for _, rs := range results {
			for _, x := range rs {
				gets = append(gets, &proto.GetRequest{Key: x.key, IncludeValue: true})
				exp = append(exp, x)
			}
		}
		got, err := readAll(lc, gets)
		if err != nil || len(got) != len(exp) {
			violate("readback-failed", fmt.Sprintf("reading back %d keys: %d results, err=%v", len(exp), len(got), err))
		} else {
			seenV := map[int64]string{}
			for i, g := range got {
				if g.Status != proto.Status_OK || g.Version == nil || g.Version.VersionId != exp[i].version || string(g.Value) != exp[i].key {
					violate("wrong-response-to-caller", fmt.Sprintf("key %q: caller was told version %d, the record has %+v value %q", exp[i].key, exp[i].version, g.Version, g.Value))
					break
				}
				if other, dup := seenV[exp[i].version]; dup {
					violate("duplicate-version-id", fmt.Sprintf("keys %q and %q were both given version id %d", other, exp[i].key, exp[i].version))
					break
				}
				seenV[exp[i].version] = exp[i].key
			}
		}
		// WAL: contiguous offsets, distinct requests
		w := leaderNode.Wal()
		if w.LastOffset() != total-1 || w.FirstOffset() != 0 {
			violate("wal-not-contiguous", fmt.Sprintf("%d writes succeeded, leader WAL is [%d,%d]", total, w.FirstOffset(), w.LastOffset()))
		} else if rd, err := w.NewReader(-1); err == nil {
			keys := map[string]bool{}
			for off := int64(0); rd.HasNext(); off++ {
				e, err := rd.ReadNext()
				if err != nil || e.Offset != off {
					violate("wal-not-contiguous", fmt.Sprintf("reading offset %d: %v (entry offset %v)", off, err, e))
					break
				}
				lev := &proto.LogEntryValue{}
				if lev.UnmarshalVT(e.Value) == nil && len(lev.GetRequests().GetWrites()) == 1 && len(lev.GetRequests().Writes[0].Puts) == 1 {
					k := lev.GetRequests().Writes[0].Puts[0].Key
					if keys[k] {
						violate("wal-duplicate-request", fmt.Sprintf("request for key %q is in the log twice", k))
						break
					}
					keys[k] = true
				}
			}
			_ = rd.Close()
		}
		// quiescence: commit == head == last
		st, _ := leaderNode.GetStatus()
		if st == nil || st.CommitOffset != total-1 || st.HeadOffset != total-1 {
			violate("commit-not-at-head-at-quiescence", fmt.Sprintf("all %d writes returned; leader status %+v", total, st))
		}
		monMu.Lock()
		if applyN != total {
			violate("apply-count", fmt.Sprintf("%d writes, %d apply events on the leader", total, applyN))
		}
		monMu.Unlock()
	}
	monMu.Lock()
	r.Count("apply_events", applyN)
	r.Count("commit_events", commitN)
	h := fmt.Sprint(commitTrace)
	monMu.Unlock()
	if maxInFlight.Load() >= 2 {
		r.Nontrivial()
	}
	r.FP(rf, writers, perWriter, maxInFlight.Load(), core.Hash(h))
	if idx < 3 {
		r.Sample(map[string]any{"rf": rf, "writers": writers, "writes_per_writer": perWriter, "max_writers_between_allocation_and_append": maxInWindow.Load(), "max_writes_in_flight": maxInFlight.Load(), "cursor_cut_at_write": cutAt, "writes_ok": total})
	}
	return r.Done()
}

var errStuck = fmt.Errorf("stuck")

func yield() { time.Sleep(0) }

func scrubErr(err error) string {
	s := err.Error()
	var b strings.Builder
	inNum := false
	for _, c := range s {
		if c >= '0' && c <= '9' {
			if !inNum {
				b.WriteByte('N')
				inNum = true
			}
			continue
		}
		inNum = false
		b.WriteRune(c)
	}
	res := b.String()
	if len(res) > 100 {
		res = res[:100]
	}
	return res
}

// ackTracker keeps, per follower, the highest offset below which every offset has been acknowledged (acks sent).
type ackTracker struct {
	mu    *sync.Mutex
	acked map[string]int64
	seen  map[string]map[int64]bool
}

func (a *ackTracker) OnAckSent(s *rc.ReplStream, offset int64) {
	a.mu.Lock()
	defer a.mu.Unlock()
	if a.seen == nil {
		a.seen = map[string]map[int64]bool{}
	}
	m := a.seen[s.Follower]
	if m == nil {
		m = map[int64]bool{}
		a.seen[s.Follower] = m
		a.acked[s.Follower] = -1
	}
	m[offset] = true
	for m[a.acked[s.Follower]+1] {
		a.acked[s.Follower]++
	}
}
func (*ackTracker) OnAckDelivered(*rc.ReplStream, int64)       {}
func (*ackTracker) OnAppendSent(*rc.ReplStream, *proto.Append) {}

func readAll(lc server.LeaderController, gets []*proto.GetRequest) ([]*proto.GetResponse, error) {
	var mu sync.Mutex
	var out []*proto.GetResponse
	done := make(chan error, 1)
	lc.Read(context.Background(), &proto.ReadRequest{Shard: pb.Int64(0), Gets: gets}, concurrent.NewStreamOnce(func(g *proto.GetResponse) error {
		mu.Lock()
		out = append(out, g)
		mu.Unlock()
		return nil
	}, func(err error) { done <- err }))
	select {
	case err := <-done:
		mu.Lock()
		defer mu.Unlock()
		return out, err
	case <-time.After(30 * time.Second):
		return nil, errStuck
	}
}

// ---- component level: quorum ack tracker vs a three-line model ----

func runC08Qat(tier string, seed uint64, idx int) core.Result {
	r := core.NewR("C08.qat", idx)
	rng := core.CaseSeed(seed, "C08.qat", idx)
	rf := 1 + rng.IntN(5)
	need := rf / 2
	startHead := int64(rng.IntN(5)) - 1
	startCommit := startHead
	if startHead >= 0 && rng.IntN(2) == 0 {
		startCommit = startHead - int64(rng.IntN(int(startHead)+2))
	}
	q := server.NewQuorumAckTracker(uint32(rf), startHead, startCommit)
	defer q.Close()
	head := startHead
	type fol struct {
		acker server.CursorAcker
		acked int64 // highest contiguous ack
		next  int64
	}
	var fols []*fol
	var trace []string
	model := func() int64 {
		if need == 0 {
			return head
		}
		best := startCommit
		for o := startCommit + 1; o <= head; o++ {
			n := 0
			for _, f := range fols {
				if f.acked >= o {
					n++
				}
			}
			if n >= need {
				best = o
			} else {
				break
			}
		}
		return best
	}
	lastCommit := q.CommitOffset()
	// callers waiting for an offset to be committed (registered in non-decreasing offset order, as the leader does;
	// several may wait for the same offset)
	type waiter struct {
		off  int64
		done int
		err  error
	}
	var waits []*waiter
	lastWaitOff := int64(-1 << 62)
	dups, inter := 0, 0
	lastF := -1
	for step := 0; step < 120 && r.Violations() == 0; step++ {
		switch c := rng.IntN(12); {
		case c >= 10 && need > 0:
			off := q.CommitOffset() + 1 + int64(rng.IntN(3))
			if off < lastWaitOff {
				off = lastWaitOff
			}
			if off > head+1 {
				break
			}
			lastWaitOff = off
			for n := 1 + rng.IntN(2); n > 0; n-- {
				w := &waiter{off: off}
				waits = append(waits, w)
				q.WaitForCommitOffsetAsync(context.Background(), off, concurrent.NewOnce(func(any) { w.done++ }, func(e error) { w.err = e }))
			}
			r.Count("qat_waiters", 1)
			trace = append(trace, fmt.Sprintf("wait(%d)", off))
		case c < 3:
			head++
			_ = q.NextOffset()
			q.AdvanceHeadOffset(head)
			trace = append(trace, fmt.Sprintf("head=%d", head))
		case c < 4 && len(fols) < rf-1:
			ao := startCommit
			if head > startCommit && rng.IntN(2) == 0 {
				ao = startCommit + rng.Int64N(head-startCommit+1)
			}
			a, err := q.NewCursorAcker(ao)
			if err != nil {
				r.Violate("C08/qat/new-cursor-error", err.Error(), map[string]any{"trace": trace})
				break
			}
			fols = append(fols, &fol{acker: a, acked: ao, next: ao + 1})
			trace = append(trace, fmt.Sprintf("attach(f%d,ack=%d)", len(fols)-1, ao))
		case len(fols) > 0:
			fi := rng.IntN(len(fols))
			f := fols[fi]
			if rng.IntN(5) == 0 && f.acked > startCommit {
				// duplicate of an older ack
				o := startCommit + 1 + rng.Int64N(f.acked-startCommit)
				f.acker.Ack(o)
				dups++
				trace = append(trace, fmt.Sprintf("dup(f%d,%d)", fi, o))
			} else if f.next <= head || (f.next == head+1 && rng.IntN(3) == 0) {
				// (an ack may arrive before the leader's own sync callback has advanced the head to that offset)
				if f.next > head {
					r.Count("acks_ahead_of_head", 1)
				}
				f.acker.Ack(f.next)
				f.acked = f.next
				f.next++
				trace = append(trace, fmt.Sprintf("ack(f%d,%d)", fi, f.acked))
				if lastF != -1 && lastF != fi {
					inter++
				}
				lastF = fi
			}
		}
		r.Count("qat_events", 1)
		if need == 0 && head == startHead {
			continue // RF=1: the tracker only learns that everything is committed with the first head advance
		}
		got, want := q.CommitOffset(), model()
		wit := map[string]any{"rf": rf, "start_head": startHead, "start_commit": startCommit, "trace": trace}
		if got < lastCommit {
			r.Violate("C08/qat/commit-decreased", fmt.Sprintf("commit went from %d to %d", lastCommit, got), wit)
		}
		if got > q.HeadOffset() {
			r.Violate("C08/qat/commit-beyond-head", fmt.Sprintf("commit %d > head %d", got, q.HeadOffset()), wit)
		}
		if got != want {
			kind := "ahead"
			if got < want {
				kind = "behind"
			}
			r.Violate("C08/qat/commit-differs-from-model:"+kind, fmt.Sprintf("rf=%d: commit offset %d, model (highest offset whose whole prefix is acknowledged by >= %d followers) says %d; last events %v", rf, got, need, want, trace[max(0, len(trace)-6):]), wit)
		}
		lastCommit = got
		for _, w := range waits {
			switch {
			case w.err != nil:
				r.Violate("C08/qat/waiter-failed", fmt.Sprintf("a caller waiting for offset %d was failed: %v", w.off, w.err), wit)
			case w.done > 1:
				r.Violate("C08/qat/waiter-completed-twice", fmt.Sprintf("a caller waiting for offset %d was completed %d times", w.off, w.done), wit)
			case w.off <= got && w.done == 0:
				r.Violate("C08/qat/waiter-not-completed-at-its-commit", fmt.Sprintf("commit offset is %d, a caller waiting for offset %d has not been completed; last events %v", got, w.off, trace[max(0, len(trace)-6):]), wit)
			case w.off > got && w.done > 0:
				r.Violate("C08/qat/waiter-completed-before-its-commit", fmt.Sprintf("commit offset is %d, a caller waiting for offset %d was completed; last events %v", got, w.off, trace[max(0, len(trace)-6):]), wit)
			}
		}
	}
	if len(fols) >= 2 && dups > 0 && inter > 0 {
		r.Nontrivial()
	}
	sort.Strings(nil)
	r.FP(rf, strings.Join(trace, ","))
	if idx < 2 {
		r.Sample(map[string]any{"rf": rf, "events": trace})
	}
	return r.Done()
}
