package repl

import (
	"context"
	"fmt"
	"sync"
	"sync/atomic"
	"time"

	pb "google.golang.org/protobuf/proto"

	"github.com/oxia-db/oxia/common/vhook"
	"github.com/oxia-db/oxia/proto"
	"github.com/oxia-db/oxia/server/wal"

	"verif/lib/core"
	rc "verif/lib/replcluster"
)

func init() {
	core.Register(&core.Part{
		Name: "C04.fence", Prop: "C04", Race: true,
		Cases: func(tier string) int { return tierN(tier, 100, 1500) },
		Run: func(tier string, seed uint64, idx int) core.Result {
			return runChaos("C04", "C04.fence", tier, seed, idx)
		},
		Rule: "the C03 schedules with fences placed in the middle of fire-and-forget write bursts while the hook follower.sync.before delays the follower's sync goroutine (appended-but-unsynced entries exist when NewTerm arrives) and leader.write.allocated delays writers; " +
			"after every successful NewTerm(T, head) answer, on that node: the synced and the appended end of its log equal the reported head, stay equal while it is polled (no entry of a term >= T can have reached it yet: the harness is the coordinator), a client write is refused, stale Truncate / BecomeLeader / AddFollower of term T-1 are refused and change nothing, and no ack for an offset above the reported head leaves on a stream of an older term; " +
			"non-trivial = >= 1 fence landed while the node had in-flight appends (appended or received within the last burst); distinct = schedule",
		MinNontrivial:    func(tier string) int { return tierN(tier, 30, 450) },
		RequiredCounters: []string{"fences_checked", "fence_polls", "stale_messages_refused", "fences_during_inflight_appends"},
		CaseTimeoutS:     180,
		Weight:           2,
	})
}

type fenceRec struct {
	term int64
	head rc.Head
}

type c04state struct {
	mu       sync.Mutex
	fences   map[string]fenceRec
	lastRecv map[string]time.Time // follower -> last append received (for the non-triviality measure only)
	hookRng  atomic.Uint64
}

var c04 *c04state

func installC04Hooks(ch *chaos) {
	st := &c04state{fences: map[string]fenceRec{}, lastRecv: map[string]time.Time{}}
	c04 = st
	st.hookRng.Store(ch.rng.Uint64() | 1)
	next := func() uint64 {
		for {
			o := st.hookRng.Load()
			n := o*6364136223846793005 + 1442695040888963407
			if st.hookRng.CompareAndSwap(o, n) {
				return n >> 33
			}
		}
	}
	vhook.Set("follower.sync.before", func(string, ...any) {
		if x := next() % 4; x != 0 {
			time.Sleep(time.Duration(x*300) * time.Microsecond)
		}
	})
	vhook.Set("leader.write.allocated", func(string, ...any) {
		if next()%3 == 0 {
			time.Sleep(100 * time.Microsecond)
		}
	})
	// right at the hand-off to the WAL: whatever lets a NewTerm in between the leader's status check and the
	// append shows as log growth after the answer
	vhook.Set("leader.write.before-append", func(string, ...any) {
		ch.r.Count("writes_held_at_the_wal_handoff", 1)
		// now and then long enough to outlast a whole NewTerm (which syncs the log before it reads the head)
		switch x := next() % 8; {
		case x == 0:
			time.Sleep(time.Duration(5+next()%15) * time.Millisecond)
		case x < 4:
			time.Sleep(time.Duration(x*400) * time.Microsecond)
		}
	})
	vhook.Set("follower.append.appended", func(_ string, args ...any) {
		if len(args) > 0 {
			for _, n := range ch.c.Nodes {
				if w := n.Wal(); w != nil && any(w) == args[0] {
					st.mu.Lock()
					st.lastRecv[n.Name] = time.Now()
					st.mu.Unlock()
				}
			}
		}
	})
	ch.c.AddMonitor(&c04AckMon{ch: ch, st: st})
}

// ackAfterFence: a client write must not be acknowledged by a node that has already answered NewTerm of a later term
// (the answer is given with the quorum tracker closed; an acknowledgement that still completes afterwards was
// applied and confirmed by a fenced node).
func ackAfterFence(ch *chaos, node string, termAtCall int64, what string) {
	st := c04
	if st == nil || ch.prop != "C04" {
		return
	}
	st.mu.Lock()
	f, ok := st.fences[node]
	st.mu.Unlock()
	if ok && f.term > termAtCall {
		ch.viol("C04", "write-acknowledged-by-a-fenced-node", fmt.Sprintf("%s had answered NewTerm(%d) (head offset %d); a write sent to it in term %d (%s) was applied and acknowledged afterwards", node, f.term, f.head.Offset, termAtCall, what))
	}
}

type c04AckMon struct {
	ch *chaos
	st *c04state
}

func (m *c04AckMon) OnAckSent(s *rc.ReplStream, offset int64) {
	m.st.mu.Lock()
	f, ok := m.st.fences[s.Follower]
	m.st.mu.Unlock()
	if ok && f.term > s.Term && offset > f.head.Offset {
		m.ch.viol("C04", "ack-in-old-term-above-reported-head", fmt.Sprintf("%s answered NewTerm(%d) with head offset %d and afterwards acknowledged offset %d to the leader of term %d",
			s.Follower, f.term, f.head.Offset, offset, s.Term))
	}
}
func (*c04AckMon) OnAckDelivered(*rc.ReplStream, int64)       {}
func (*c04AckMon) OnAppendSent(*rc.ReplStream, *proto.Append) {}

func checkFence(ch *chaos, n *rc.Node, term int64, head rc.Head) {
	st := c04
	if st == nil {
		return
	}
	st.mu.Lock()
	st.fences[n.Name] = fenceRec{term, head}
	recent := time.Since(st.lastRecv[n.Name]) < 5*time.Millisecond
	st.mu.Unlock()
	ch.r.Count("fences_checked", 1)
	if recent {
		ch.r.Count("fences_during_inflight_appends", 1)
		ch.r.Nontrivial()
	}
	w := n.Wal()
	if w == nil {
		return
	}
	role := "follower"
	if _, err := n.Leader(); err == nil {
		role = "leader"
	}
	// (a) the reported head is the end of the log, synced and appended, and stays so
	for i := 0; i < 25; i++ {
		synced, appended := w.LastOffset(), wal.VerifLastAppendedOffset(w)
		ch.r.Count("fence_polls", 1)
		if synced != head.Offset || appended != head.Offset {
			kind := "log-grew-after-answer"
			if i == 0 {
				kind = "reported-head-is-not-the-end-of-the-log"
			}
			what := "unsynced-tail"
			if synced > head.Offset {
				what = "synced-beyond-head"
			} else if synced < head.Offset {
				what = "head-beyond-log"
			}
			ch.viol("C04", kind+"/"+role+":"+what, fmt.Sprintf("%s (%s) answered NewTerm(%d) with head (term %d, offset %d); its log ends at synced=%d appended=%d (poll %d)",
				n.Name, role, term, head.Term, head.Offset, synced, appended, i))
			return
		}
		if i%5 == 4 {
			time.Sleep(200 * time.Microsecond)
		} else {
			yield()
		}
	}
	if head.Offset >= 0 {
		if e, err := readEntry(w, head.Offset); err == nil && e.Term != head.Term {
			ch.viol("C04", "reported-head-term-wrong", fmt.Sprintf("%s reported head term %d, entry %d has term %d", n.Name, head.Term, head.Offset, e.Term))
		}
	}
	// (b) no client write is accepted any more
	if lc, err := n.Leader(); err == nil {
		ctx, cancel := context.WithTimeout(context.Background(), 2*time.Second)
		_, werr := lc.WriteBlock(ctx, &proto.WriteRequest{Shard: pb.Int64(0), Puts: []*proto.PutRequest{{Key: "after-fence", Value: []byte("x")}}})
		cancel()
		if werr == nil {
			ch.viol("C04", "write-accepted-after-fence", fmt.Sprintf("%s accepted a client write after answering NewTerm(%d)", n.Name, term))
		}
	}
	// (c) late messages of an older term change nothing
	before, _ := n.GetStatus()
	if _, err := n.Truncate(&proto.TruncateRequest{Namespace: rc.Namespace, Shard: 0, Term: term - 1, HeadEntryId: &proto.EntryId{Term: term - 1, Offset: -1}}); err == nil {
		ch.viol("C04", "stale-truncate-accepted", fmt.Sprintf("%s accepted Truncate of term %d after NewTerm(%d)", n.Name, term-1, term))
	} else {
		ch.r.Count("stale_messages_refused", 1)
	}
	ctx, cancel := context.WithTimeout(context.Background(), 2*time.Second)
	if role == "leader" {
		if _, err := n.BecomeLeader(ctx, &proto.BecomeLeaderRequest{Namespace: rc.Namespace, Shard: 0, Term: term - 1, ReplicationFactor: uint32(ch.rf), FollowerMaps: map[string]*proto.EntryId{}}); err == nil {
			ch.viol("C04", "stale-become-leader-accepted", fmt.Sprintf("%s accepted BecomeLeader of term %d after NewTerm(%d)", n.Name, term-1, term))
		} else {
			ch.r.Count("stale_messages_refused", 1)
		}
	}
	cancel()
	if _, err := n.AddFollower(&proto.AddFollowerRequest{Namespace: rc.Namespace, Shard: 0, Term: term - 1, FollowerName: "n9", FollowerHeadEntryId: &proto.EntryId{Term: -1, Offset: -1}}); err == nil {
		ch.viol("C04", "stale-add-follower-accepted", fmt.Sprintf("%s accepted AddFollower of term %d after NewTerm(%d)", n.Name, term-1, term))
	} else {
		ch.r.Count("stale_messages_refused", 1)
	}
	after, _ := n.GetStatus()
	if before != nil && after != nil && (before.Term != after.Term || before.Status != after.Status) {
		ch.viol("C04", "stale-message-changed-node", fmt.Sprintf("%s: status before %v, after the stale messages %v", n.Name, before, after))
	}
	if got := w.LastOffset(); n.Wal() == w && got != head.Offset {
		ch.viol("C04", "stale-message-changed-log", fmt.Sprintf("%s: log end moved from %d to %d after stale messages", n.Name, head.Offset, got))
	}
}

var _ = core.Held
