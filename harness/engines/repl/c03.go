package repl

import (
	"fmt"
	"math/rand/v2"
	"os"
	"strings"
	"sync/atomic"
	"time"

	"github.com/oxia-db/oxia/common/vhook"
	"github.com/oxia-db/oxia/proto"
	"github.com/oxia-db/oxia/server/kv"

	"verif/lib/core"
	rc "verif/lib/replcluster"
)

func init() {
	core.Register(&core.Part{
		Name: "C03.chaos", Prop: "C03", Race: true,
		Cases: func(tier string) int { return tierN(tier, 120, 3000) },
		Run: func(tier string, seed uint64, idx int) core.Result {
			return runChaos("C03", "C03.chaos", tier, seed, idx)
		},
		Rule: "seeded schedules (15..30 steps) on 3 or 5 real nodes: write bursts (waited and fire-and-forget), stalled/delayed/cut links (re-delivery of the last appends after reconnect), follower restarts and wipes (snapshot install, chunk sizes 64B..1MiB), leaders isolated with an unreplicated tail and deposed, elections with random majority fence sets and orders, stragglers re-fenced and attached (truncation); " +
			"online oracle at every ack (in the follower's goroutine, before the ack leaves): the follower's synced log equals the leader's at every newly acknowledged offset (term, payload, timestamp); at quiescence: logs identical up to the commit offset and decoded DB dumps identical on all replicas; " +
			"non-trivial = >= 2 elections, >= 1 truncation or snapshot and >= 1 cut link; distinct = schedule",
		MinNontrivial:    func(tier string) int { return tierN(tier, 40, 900) },
		RequiredCounters: []string{"acks_checked", "elections", "log_entries_compared", "replica_dumps_compared", "truncations_or_snapshots", "link_cuts"},
		CaseTimeoutS:     180,
		Weight:           2,
	})
}

func runChaos(prop, part, tier string, seed uint64, idx int) core.Result {
	r := core.NewR(part, idx)
	rng := core.CaseSeed(seed, part, idx)
	vhook.Clear()
	defer vhook.Clear()
	rf := []int{3, 3, 5}[rng.IntN(3)]
	oldChunk := kv.MaxSnapshotChunkSize
	kv.MaxSnapshotChunkSize = []int64{64, 1024, 64 * 1024, 1024 * 1024}[rng.IntN(4)]
	defer func() { kv.MaxSnapshotChunkSize = oldChunk }()

	dir, err := os.MkdirTemp("", "chaos-")
	if err != nil {
		r.Inconclusive(err.Error())
		return r.Done()
	}
	defer os.RemoveAll(dir)
	// small log segments in two thirds of the cases, so that truncations and restarts cross segment boundaries
	segSize := []int32{1 << 10, 1 << 12, 1 << 16}[rng.IntN(3)]
	c, err := rc.New(dir, rf, segSize, true)
	if err != nil {
		r.Inconclusive(err.Error())
		return r.Done()
	}
	defer func() {
		t := time.Now()
		c.Close()
		if d := time.Since(t); d > 2*time.Second {
			fmt.Fprintf(os.Stderr, "cluster close took %v\n", d)
		}
	}()
	ch := &chaos{prop: prop, r: r, rng: rng, c: c, rf: rf, acked: map[string]string{}, attached: map[string]bool{}, rejoinFailures: map[string]int{}, allowWipeOnStuck: true, t0: time.Now(), amnesiac: map[string]bool{}}
	ch.ackMon = &ackMonitor{ch: ch, checked: map[int64]int64{}}
	c.AddMonitor(ch.ackMon)
	if prop == "C04" {
		installC04Hooks(ch)
	}
	installApplyMonitor(ch)
	if prop == "C03" {
		// the follower's sync routine lingers now and then before it syncs: entries are appended but not durable when
		// a link is cut, a stream re-opens and the leader re-sends them
		var syncN atomic.Int64
		vhook.Set("follower.sync.before", func(string, ...any) {
			switch n := syncN.Add(1); {
			case n%11 == 0:
				// long enough for a cut link to be re-opened and the entries to be sent again meanwhile
				time.Sleep(time.Duration(10+n%3*10) * time.Millisecond)
			case n%3 == 0:
				time.Sleep(time.Duration(200+n%5*200) * time.Microsecond)
			}
		})
	}

	if !ch.elect(c.Nodes) {
		r.Violate(prop+"/harness/initial-election", "could not elect a leader on fresh nodes", nil)
		return r.Done()
	}
	steps := 15 + rng.IntN(16)
	for i := 0; i < steps && r.Violations() == 0; i++ {
		ch.checkCommitSupport()
		switch p := rng.IntN(100); {
		case p < 30:
			ch.write(1+rng.IntN(20), rng.IntN(3) > 0)
		case p < 40:
			// a follower lags
			if f := ch.randomFollower(); f != "" && ch.leader != "" {
				l := c.Link(ch.leader, f)
				if rng.IntN(2) == 0 {
					l.SetStalled(true)
					ch.log("stall %s>%s", ch.leader, f)
				} else {
					l.SetDelay(time.Duration(rng.IntN(500)) * time.Microsecond)
					ch.log("delay %s>%s", ch.leader, f)
				}
			}
		case p < 48:
			for _, a := range c.Nodes {
				for _, b := range c.Nodes {
					c.Link(a.Name, b.Name).SetStalled(false)
				}
			}
			ch.log("unstall all")
		case p < 58:
			if f := ch.randomFollower(); f != "" && ch.leader != "" {
				c.Link(ch.leader, f).Cut()
				r.Count("link_cuts", 1)
				ch.log("cut %s>%s", ch.leader, f)
			}
		case p < 64:
			if f := ch.randomFollower(); f != "" {
				ch.ackMon.noteRestart(f, false)
				if err := c.Node(f).Restart(); err != nil {
					r.Inconclusive("restart: " + err.Error())
					return r.Done()
				}
				delete(ch.attached, f)
				r.Count("follower_restarts", 1)
				ch.log("restart %s", f)
			}
		case p < 68:
			if f := ch.randomFollower(); f != "" && ch.wipe(f) {
				r.Count("follower_wipes", 1)
			}
		case p < 72:
			nEv := len(c.Events())
			ch.rejoinStragglers()
			ch.refreshAmnesiac()
			// a node whose log was just cut restarts right away, before the log grows back over the cut (what its
			// log files hold on disk is then what it comes back with)
			for _, e := range c.Events()[nEv:] {
				if e.Kind == "truncate-ok" && rng.IntN(2) == 0 && e.Node != ch.leader {
					ch.ackMon.noteRestart(e.Node, false)
					if err := c.Node(e.Node).Restart(); err == nil {
						delete(ch.attached, e.Node)
						r.Count("restarts_right_after_a_truncation", 1)
						ch.log("restart %s right after its log was truncated to %d", e.Node, e.Offset)
					}
				}
			}
		case p < 76:
			// the Truncate request of the current term reaches a follower a second time (a retry or a network
			// duplicate), possibly after the follower has received and acknowledged entries beyond that point
			if f := ch.randomFollower(); f != "" {
				if req := c.LastTruncateTo(f); req != nil && req.Term == ch.term {
					fw := c.Node(f).Wal()
					if fw == nil {
						break
					}
					before := fw.LastOffset()
					acked, had := ch.ackMon.ackedBy(f, ch.term)
					ackedOld, hadOld := ch.ackMon.ackedBeforeRestart(f, ch.term)
					if hadOld && (!had || ackedOld > acked) {
						acked, had = ackedOld, true
					}
					following := false
					if st, serr := c.Node(f).GetStatus(); serr == nil && st.Status == proto.ServingStatus_FOLLOWER {
						following = true
					}
					res, err := c.Node(f).Truncate(req)
					r.Count("duplicate_truncates", 1)
					ch.log("duplicate truncate to %s (term %d, head %d): err=%v", f, req.Term, req.HeadEntryId.Offset, err)
					if err == nil {
						r.Count("duplicate_truncates_accepted", 1)
						if had && res.HeadEntryId.Offset < acked && res.HeadEntryId.Offset < before {
							// a node that restarted, or was sent NewTerm of the same term again, is FENCED/NOT_MEMBER in that
							// term: a state in which Truncate is accepted by design (known finding); accepted while FOLLOWER
							// is something else
							sig := "/duplicate-truncate-cut-acknowledged-entries"
							if !following {
								sig += "/after-a-restart-of-the-follower"
							}
							r.Violate(prop+sig, fmt.Sprintf("%s had acknowledged offset %d on a stream of term %d (log end %d, following: %v); a re-delivered Truncate of the same term cut its log back to %d", f, acked, ch.term, before, following, res.HeadEntryId.Offset), map[string]any{"schedule": ch.tail(40)})
						}
					}
				}
			}
		case p < 86:
			// depose a leader that holds an unreplicated tail: isolate it, let it take writes, elect among the others
			if ch.leader != "" {
				old := ch.leader
				for _, n := range c.Nodes {
					if n.Name != old {
						c.Link(old, n.Name).SetStalled(true)
					}
				}
				tail := 1 + rng.IntN(6)
				if rng.IntN(3) == 0 {
					tail = 10 + rng.IntN(30) // long enough to span log segments
				}
				ch.write(tail, false)
				time.Sleep(time.Duration(rng.IntN(3)) * time.Millisecond)
				ch.log("isolate leader %s with unreplicated tail", old)
				set := ch.majorityExcluding(old)
				if len(set) >= rf/2+1 {
					ch.elect(set)
				}
				for _, n := range c.Nodes {
					c.Link(old, n.Name).SetStalled(false)
					c.Link(old, n.Name).Cut()
				}
				r.Count("leaders_deposed_with_tail", 1)
			}
		default:
			// ordinary election with a random majority, random order
			var set []*rc.Node
			if ch.leader != "" && rng.IntN(2) == 0 {
				set = ch.majorityIncluding(ch.leader)
			} else {
				set = ch.majorityIncluding()
			}
			if len(set) >= rf/2+1 {
				ch.elect(set)
			}
		}
	}
	if r.Violations() == 0 {
		ch.log("quiesce")
		if ch.quiesce() {
			ch.log("compare")
			ch.compareReplicas()
		}
		ch.log("done")
	}
	evs := c.Events()
	trunc := 0
	for _, e := range evs {
		if e.Kind == "truncate-ok" || e.Kind == "snapshot-open" {
			trunc++
		}
	}
	r.Count("truncations_or_snapshots", int64(trunc))
	r.Count("acks_checked", ch.ackMon.n.Load())
	r.Count("fences", int64(ch.fences))
	if r.Get("elections") >= 2 && trunc >= 1 && r.Get("link_cuts") >= 1 {
		r.Nontrivial()
	}
	r.FP(rf, strings.Join(ch.tail(500), ";"))
	if idx < 2 {
		r.Sample(map[string]any{"rf": rf, "snapshot_chunk": kv.MaxSnapshotChunkSize, "schedule": ch.tail(14), "acks_checked": ch.ackMon.n.Load()})
	}
	return r.Done()
}

func (ch *chaos) randomFollower() string {
	var fs []string
	for _, n := range ch.c.Nodes {
		if n.Name != ch.leader && !n.Down() {
			fs = append(fs, n.Name)
		}
	}
	if len(fs) == 0 {
		return ""
	}
	return fs[ch.rng.IntN(len(fs))]
}

func (ch *chaos) downOrWiped() []string {
	var res []string
	for _, n := range ch.c.Nodes {
		if n.Down() {
			res = append(res, n.Name)
		}
	}
	return res
}

var _ = fmt.Sprint
var _ = rand.Int
