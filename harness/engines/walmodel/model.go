// Package walmodel drives server/wal through its factory against a list model (C09)
// and reopens damaged copies (C10).
package walmodel

import (
	"bytes"
	"context"
	"errors"
	"fmt"
	"math/rand/v2"
	"os"
	"path/filepath"
	"sort"
	"strconv"
	"strings"
	"time"

	time2 "github.com/oxia-db/oxia/common/time"
	"github.com/oxia-db/oxia/proto"
	"github.com/oxia-db/oxia/server/wal"

	"verif/lib/core"
)

type mEntry struct {
	Offset int64
	Term   int64
	Ts     uint64
	Value  []byte
}

// model is the list the WAL must equal.
type model struct {
	entries []mEntry // contiguous; includes the unsynced tail
	synced  int64    // last synced offset, -1 when nothing is visible
	first   int64    // first readable offset (trimming moves it); -1 when empty
	ghosts  []mEntry // entries logically trimmed but possibly still on disk (may re-appear on reopen)
}

func newModel() *model { return &model{synced: -1, first: -1} }

func (m *model) empty() bool { return len(m.entries) == 0 }
func (m *model) lastAppended() int64 {
	if m.empty() {
		return -1
	}
	return m.entries[len(m.entries)-1].Offset
}
func (m *model) get(off int64) *mEntry {
	if m.empty() {
		return nil
	}
	i := off - m.entries[0].Offset
	if i < 0 || i >= int64(len(m.entries)) {
		return nil
	}
	return &m.entries[i]
}

type commitProvider struct{ v int64 }

func (c *commitProvider) CommitOffset() int64 { return c.v }

type opRec struct {
	Op   string `json:"op"`
	Arg  int64  `json:"arg,omitempty"`
	Size int    `json:"size,omitempty"`
	Res  string `json:"res,omitempty"`
}

type harness struct {
	r        *core.R
	rng      *rand.Rand
	dir      string
	opts     *wal.FactoryOptions
	w        wal.Wal
	m        *model
	commit   *commitProvider
	clock    *time2.MockedClock
	nowMs    int64
	trimTick time.Duration
	ops      []opRec
	lastMut  string
	term     int64
	useShim  bool
}

func (h *harness) open() error {
	var err error
	if h.useShim {
		h.w, err = wal.NewWalForVerif("ns", 1, h.opts, h.commit, h.clock, h.trimTick)
	} else {
		h.w, err = wal.NewWalFactory(h.opts).NewWal("ns", 1, h.commit)
	}
	return err
}

func (h *harness) walDir() string { return filepath.Join(h.dir, "ns", "shard-1") }

// segmentBases lists the base offsets of the segment files on disk.
func (h *harness) segmentBases() []int64 {
	des, _ := os.ReadDir(h.walDir())
	var res []int64
	for _, de := range des {
		n := de.Name()
		if strings.HasSuffix(n, ".txnx") || strings.HasSuffix(n, ".txn") {
			if v, err := strconv.ParseInt(strings.TrimSuffix(strings.TrimSuffix(n, ".txnx"), ".txn"), 10, 64); err == nil {
				res = append(res, v)
			}
		}
	}
	sort.Slice(res, func(i, j int) bool { return res[i] < res[j] })
	return res
}

func (h *harness) viol(clause, detail string) {
	h.r.Violate("C09/"+clause+"/after:"+h.lastMut, fmt.Sprintf("%s; ops=%s", detail, core.JSON(h.tailOps(12))),
		map[string]any{"segment_size": h.opts.SegmentSize, "sync_data": h.opts.SyncData, "ops": h.ops})
}

func (h *harness) tailOps(n int) []opRec {
	if len(h.ops) <= n {
		return h.ops
	}
	return h.ops[len(h.ops)-n:]
}

func eqEntry(e *proto.LogEntry, me *mEntry) bool {
	return e != nil && e.Offset == me.Offset && e.Term == me.Term && e.Timestamp == me.Ts && bytes.Equal(e.Value, me.Value)
}

// compare checks every observable of the WAL against the model.
func (h *harness) compare() bool {
	m := h.m
	wantFirst, wantLast := int64(-1), m.synced
	if m.synced >= 0 && !m.empty() {
		wantFirst = m.first
	}
	if m.empty() || m.synced < m.entries[0].Offset {
		wantLast = -1
		if !m.empty() {
			// entries appended but none synced yet: first offset is set at append time by the implementation;
			// the property talks about the visible log, so accept either.
			wantFirst = -2
		}
	}
	gotFirst, gotLast := h.w.FirstOffset(), h.w.LastOffset()
	if gotLast != wantLast {
		h.viol("last-offset", fmt.Sprintf("LastOffset()=%d, model says %d", gotLast, wantLast))
		return false
	}
	if wantFirst != -2 && gotFirst != wantFirst {
		h.viol("first-offset", fmt.Sprintf("FirstOffset()=%d, model says %d", gotFirst, wantFirst))
		return false
	}
	if wantLast < 0 {
		// empty visible log: forward reader has nothing
		rd, err := h.w.NewReader(-1)
		if err == nil {
			if gotFirst <= 0 && rd.HasNext() {
				h.viol("forward-read", "reader on empty log HasNext()=true")
				_ = rd.Close()
				return false
			}
			_ = rd.Close()
		}
		return true
	}
	// forward read of everything
	rd, err := h.w.NewReader(m.first - 1)
	if err != nil {
		h.viol("forward-read", fmt.Sprintf("NewReader(%d): %v", m.first-1, err))
		return false
	}
	for off := m.first; off <= m.synced; off++ {
		if !rd.HasNext() {
			h.viol("forward-read", fmt.Sprintf("HasNext()=false at offset %d, log should reach %d", off, m.synced))
			_ = rd.Close()
			return false
		}
		e, err := rd.ReadNext()
		if err != nil {
			h.viol("forward-read", fmt.Sprintf("ReadNext at %d: %v", off, errClass(err)))
			_ = rd.Close()
			return false
		}
		if !eqEntry(e, m.get(off)) {
			h.viol("forward-read", fmt.Sprintf("entry %d differs: got (off=%d term=%d ts=%d len=%d)", off, e.Offset, e.Term, e.Timestamp, len(e.Value)))
			_ = rd.Close()
			return false
		}
		h.r.Count("entries_compared", 1)
	}
	if rd.HasNext() {
		h.viol("forward-read", fmt.Sprintf("HasNext()=true past the end %d", m.synced))
		_ = rd.Close()
		return false
	}
	_ = rd.Close()
	// reverse read
	rr, err := h.w.NewReverseReader()
	if err != nil {
		h.viol("reverse-read", fmt.Sprintf("NewReverseReader: %v", err))
		return false
	}
	for off := m.synced; off >= m.first; off-- {
		if !rr.HasNext() {
			h.viol("reverse-read", fmt.Sprintf("HasNext()=false at offset %d, first is %d", off, m.first))
			_ = rr.Close()
			return false
		}
		e, err := rr.ReadNext()
		if err != nil {
			h.viol("reverse-read", fmt.Sprintf("ReadNext at %d: %v", off, errClass(err)))
			_ = rr.Close()
			return false
		}
		if !eqEntry(e, m.get(off)) {
			h.viol("reverse-read", fmt.Sprintf("entry %d differs", off))
			_ = rr.Close()
			return false
		}
	}
	if rr.HasNext() {
		h.viol("reverse-read", "HasNext()=true before the first entry")
		_ = rr.Close()
		return false
	}
	_ = rr.Close()
	// reader from the middle
	if m.synced > m.first {
		mid := m.first + h.rng.Int64N(m.synced-m.first+1)
		rd, err := h.w.NewReader(mid - 1)
		if err != nil {
			h.viol("mid-read", fmt.Sprintf("NewReader(%d): %v", mid-1, err))
			return false
		}
		if !rd.HasNext() {
			h.viol("mid-read", fmt.Sprintf("HasNext()=false at %d", mid))
			_ = rd.Close()
			return false
		}
		e, err := rd.ReadNext()
		if err != nil || !eqEntry(e, m.get(mid)) {
			h.viol("mid-read", fmt.Sprintf("entry %d: err=%v", mid, err))
			_ = rd.Close()
			return false
		}
		_ = rd.Close()
	}
	// reader before the first entry must be refused
	if m.first > 0 {
		if rd, err := h.w.NewReader(m.first - 2); err == nil {
			_ = rd.Close()
			h.viol("read-before-first", fmt.Sprintf("NewReader(%d) accepted although first=%d", m.first-2, m.first))
			return false
		}
	}
	return true
}

func errClass(err error) string {
	s := err.Error()
	return numRe(s)
}

func numRe(s string) string {
	var b strings.Builder
	inNum := false
	for _, c := range s {
		if c >= '0' && c <= '9' {
			if !inNum {
				b.WriteByte('N')
				inNum = true
			}
			continue
		}
		inNum = false
		b.WriteRune(c)
	}
	return b.String()
}

func (h *harness) newEntry(off int64, maxVal int) *proto.LogEntry {
	n := 1
	switch h.rng.IntN(4) {
	case 0:
		n = 1 + h.rng.IntN(8)
	case 1:
		n = maxVal - h.rng.IntN(4)
	default:
		n = 1 + h.rng.IntN(maxVal)
	}
	if n < 1 {
		n = 1
	}
	if n > maxVal {
		n = maxVal
	}
	v := make([]byte, n)
	for i := range v {
		v[i] = byte(h.rng.Uint32())
	}
	h.nowMs += h.rng.Int64N(20)
	return &proto.LogEntry{Term: h.term, Offset: off, Value: v, Timestamp: uint64(h.nowMs)}
}

func (h *harness) maxVal() int {
	mv := int(h.opts.SegmentSize) - 12 - 40
	if mv < 1 {
		mv = 1
	}
	return mv
}

func (h *harness) doAppend(kind string) bool {
	m := h.m
	off := m.lastAppended() + 1
	if m.empty() && h.rng.IntN(4) == 0 {
		off = h.rng.Int64N(50) // an empty WAL accepts any first offset (snapshot install path)
	}
	e := h.newEntry(off, h.maxVal())
	var err error
	switch kind {
	case "append":
		err = h.w.Append(e)
	case "append-async":
		err = h.w.AppendAsync(e)
	case "append-and-sync":
		ch := make(chan error, 1)
		h.w.AppendAndSync(e, func(err error) { ch <- err })
		select {
		case err = <-ch:
		case <-time.After(30 * time.Second):
			h.r.Inconclusive("AppendAndSync callback did not fire in 30s")
			return false
		}
	}
	h.ops = append(h.ops, opRec{Op: kind, Arg: off, Size: len(e.Value), Res: fmt.Sprint(err)})
	if err != nil {
		h.lastMutSet(kind)
		h.viol("append-rejected", fmt.Sprintf("%s at offset %d (= last+1 or first on empty log) rejected: %s", kind, off, errClass(err)))
		return false
	}
	if m.empty() {
		m.first = off
		m.ghosts = nil
	}
	m.entries = append(m.entries, mEntry{Offset: e.Offset, Term: e.Term, Ts: e.Timestamp, Value: e.Value})
	if kind != "append-async" {
		m.synced = off
	}
	h.r.Count("appends", 1)
	return true
}

func (h *harness) lastMutSet(s string) { h.lastMut = s }

func (h *harness) doBadAppend() bool {
	m := h.m
	if m.empty() {
		return true
	}
	last := m.lastAppended()
	cands := []int64{last, last + 2, last - 1, 0, last + 100}
	off := cands[h.rng.IntN(len(cands))]
	if off == last+1 || off < 0 {
		return true
	}
	e := h.newEntry(off, h.maxVal())
	err := h.w.AppendAsync(e)
	h.ops = append(h.ops, opRec{Op: "bad-append", Arg: off, Res: fmt.Sprint(err)})
	if err == nil {
		h.viol("bad-append-accepted", fmt.Sprintf("append at offset %d accepted, last appended is %d", off, last))
		return false
	}
	h.r.Count("bad_appends_rejected", 1)
	return true
}

func (h *harness) doSync() bool {
	err := h.w.Sync(context.Background())
	h.ops = append(h.ops, opRec{Op: "sync", Res: fmt.Sprint(err)})
	if err != nil {
		h.viol("sync-error", errClass(err))
		return false
	}
	h.m.synced = h.m.lastAppended()
	return true
}

func (h *harness) doTruncate() bool {
	m := h.m
	var k int64
	bases := h.segmentBases()
	switch {
	case m.empty():
		k = -1
		if h.rng.IntN(2) == 0 {
			k = h.rng.Int64N(10)
		}
	default:
		lo, hi := m.first, m.lastAppended()
		choice := h.rng.IntN(10)
		switch {
		case choice == 0:
			k = -1
		case choice == 1:
			k = hi
		case choice == 2:
			k = lo
		case choice <= 5 && len(bases) > 1:
			// around a segment boundary
			b := bases[1+h.rng.IntN(len(bases)-1)]
			k = b + int64(h.rng.IntN(3)) - 1
		default:
			k = lo + h.rng.Int64N(hi-lo+1)
		}
		if k != -1 && (k < lo || k > hi) {
			k = lo + h.rng.Int64N(hi-lo+1)
		}
		if lo > 0 && h.rng.IntN(12) == 0 {
			// below the first entry of the log (a follower whose log starts after a snapshot is asked to go back further)
			k = h.rng.Int64N(lo)
		}
	}
	kind := "truncate"
	belowFirst := !m.empty() && k != -1 && k < m.first
	if belowFirst {
		kind = "truncate-below-first"
	} else if k == -1 {
		kind = "truncate-all"
	} else if len(bases) > 0 && k < bases[len(bases)-1] {
		kind = "truncate-cross-segment"
	} else if k == m.lastAppended() {
		kind = "truncate-noop"
	}
	if !m.empty() && m.synced != m.lastAppended() {
		kind += "+unsynced-tail"
	}
	type tres struct {
		got int64
		err error
	}
	tch := make(chan tres, 1)
	go func() {
		g, e := h.w.TruncateLog(k)
		tch <- tres{g, e}
	}()
	var got int64
	var err error
	select {
	case tr := <-tch:
		got, err = tr.got, tr.err
	case <-time.After(20 * time.Second):
		h.ops = append(h.ops, opRec{Op: kind, Arg: k, Res: "never returned"})
		h.lastMutSet(kind)
		// logical evidence of a deadlock rather than slowness: the WAL's own lock cannot be taken any more
		probe := make(chan struct{})
		go func() {
			_ = h.w.FirstOffset()
			_, _ = h.w.NewReader(-1)
			_ = h.w.AppendAsync(&proto.LogEntry{Offset: -5})
			close(probe)
		}()
		select {
		case <-probe:
			h.r.Inconclusive("TruncateLog did not return within 20s")
		case <-time.After(5 * time.Second):
			h.viol("truncate-never-returns", fmt.Sprintf("TruncateLog(%d) did not return and the WAL no longer answers any call (its lock is held)", k))
		}
		h.r.RestartChild()
		h.w = nil
		return false
	}
	h.ops = append(h.ops, opRec{Op: kind, Arg: k, Res: fmt.Sprintf("%d,%v", got, err)})
	h.lastMutSet(kind)
	if err != nil {
		h.viol("truncate-error", fmt.Sprintf("TruncateLog(%d): %s", k, errClass(err)))
		return false
	}
	if m.empty() || k == -1 || belowFirst {
		if got != -1 {
			h.viol("truncate-result", fmt.Sprintf("TruncateLog(%d) on empty/all returned %d", k, got))
			return false
		}
		m.entries, m.synced, m.first, m.ghosts = nil, -1, -1, nil
		h.r.Count("truncates", 1)
		return true
	}
	if got != k {
		h.viol("truncate-result", fmt.Sprintf("TruncateLog(%d) returned %d", k, got))
		return false
	}
	m.entries = m.entries[:k-m.entries[0].Offset+1]
	m.synced = k
	h.r.Count("truncates", 1)
	if strings.HasPrefix(kind, "truncate-cross-segment") {
		h.r.Count("truncates_cross_segment", 1)
	}
	return true
}

func (h *harness) doClear() bool {
	err := h.w.Clear()
	h.ops = append(h.ops, opRec{Op: "clear", Res: fmt.Sprint(err)})
	h.lastMutSet("clear")
	if err != nil {
		h.viol("clear-error", errClass(err))
		return false
	}
	h.m.entries, h.m.synced, h.m.first, h.m.ghosts = nil, -1, -1, nil
	h.r.Count("clears", 1)
	return true
}

func (h *harness) doReopen() bool {
	m := h.m
	unsynced := !m.empty() && m.synced != m.lastAppended()
	if err := h.w.Close(); err != nil {
		h.viol("close-error", errClass(err))
		return false
	}
	err := h.open()
	kind := "reopen"
	if unsynced {
		kind = "reopen+unsynced-tail"
	}
	h.ops = append(h.ops, opRec{Op: kind, Res: fmt.Sprint(err)})
	h.lastMutSet(kind)
	if err != nil {
		h.viol("reopen-error", errClass(err))
		return false
	}
	h.r.Count("reopens", 1)
	if m.empty() {
		return true
	}
	// a clean close keeps everything that was appended (the mapping is shared with the page cache);
	// the property allows any prefix of the unsynced tail, so adopt what the WAL reports if it is in that range.
	got := h.w.LastOffset()
	lo := m.synced
	if lo < m.entries[0].Offset-1 {
		lo = m.entries[0].Offset - 1
	}
	if got < lo || got > m.lastAppended() {
		h.viol("reopen-last-offset", fmt.Sprintf("after reopen LastOffset()=%d, synced=%d appended=%d", got, m.synced, m.lastAppended()))
		return false
	}
	if got < m.entries[0].Offset {
		m.entries, m.synced, m.first, m.ghosts = nil, -1, -1, nil
		return true
	}
	m.entries = m.entries[:got-m.entries[0].Offset+1]
	m.synced = got
	// trimmed-but-still-on-disk entries may legitimately re-appear: accept a lower first offset if content matches
	gf := h.w.FirstOffset()
	if gf < m.first && gf >= 0 && len(m.ghosts) > 0 && gf >= m.ghosts[0].Offset {
		idx := gf - m.ghosts[0].Offset
		m.entries = append(append([]mEntry{}, m.ghosts[idx:]...), m.entries...)
		m.ghosts = m.ghosts[:idx]
		m.first = gf
		h.r.Count("reopen_resurrected_trimmed_prefix", 1)
	}
	return true
}

var errStop = errors.New("stop")
