package walmodel

import (
	"context"
	"fmt"
	"os"
	"strings"
	"sync"
	"sync/atomic"
	"time"

	time2 "github.com/oxia-db/oxia/common/time"
	"github.com/oxia-db/oxia/common/vhook"
	"github.com/oxia-db/oxia/proto"
	"github.com/oxia-db/oxia/server/wal"

	"verif/lib/core"
)

var segSizes = []int32{128, 160, 192, 256, 384, 512, 1024, 4096}

func tierN(tier string, quick, thorough int) int {
	if tier == "thorough" {
		return thorough
	}
	return quick
}

func init() {
	core.Register(&core.Part{
		Name: "C09.model", Prop: "C09",
		Cases: func(tier string) int { return tierN(tier, 400, 20000) },
		Run:   runC09Model,
		Rule: "seeded op sequences (append/async+sync/append-and-sync/bad-append/truncate incl. segment boundaries/clear/reopen) on segment sizes 128B..4KiB " +
			"vs a list model compared after every step (first/last, forward, reverse, mid reader); non-trivial = the run rolled over >=1 segment and did >=1 truncate or reopen; distinct = op-kind sequence + segment size",
		MinNontrivial:    func(tier string) int { return tierN(tier, 100, 5000) },
		RequiredCounters: []string{"appends", "truncates", "truncates_cross_segment", "reopens", "rollovers", "entries_compared"},
	})
	core.Register(&core.Part{
		Name: "C09.trim", Prop: "C09",
		Cases: func(tier string) int { return tierN(tier, 40, 1500) },
		Run:   runC09Trim,
		Rule: "WAL opened through the verif shim with a mocked clock and a 5ms trimmer tick; seeded (retention, commit offset, timestamps); after every clock/commit change wait for 2 trimmer ticks (hook wal.trim.tick) " +
			"then check: first never decreases, every removed offset is older than retention and <= commit offset, remaining content equals the model; non-trivial = a trim was observed",
		MinNontrivial:    func(tier string) int { return tierN(tier, 10, 400) },
		RequiredCounters: []string{"trim_ticks_observed", "trims_observed"},
	})
	core.Register(&core.Part{
		Name: "C09.concurrent", Prop: "C09", Race: true,
		Cases: func(tier string) int { return tierN(tier, 12, 300) },
		Run:   runC09Concurrent,
		Rule: "one appender (append+sync, AppendAndSync) with 3 concurrent forward readers and a reverse reader under -race; every entry a reader returns must equal what was appended at that offset; " +
			"non-trivial = readers observed entries while the appender was active across >=2 segments",
		MinNontrivial:    func(tier string) int { return tierN(tier, 4, 100) },
		RequiredCounters: []string{"concurrent_reads"},
	})
}

func runC09Model(tier string, seed uint64, idx int) core.Result {
	r := core.NewR("C09.model", idx)
	rng := core.CaseSeed(seed, "C09.model", idx)
	dir, err := os.MkdirTemp("", "c09-")
	if err != nil {
		r.Inconclusive(err.Error())
		return r.Done()
	}
	defer os.RemoveAll(dir)
	h := &harness{
		r: r, rng: rng, dir: dir, m: newModel(), commit: &commitProvider{v: -1},
		opts:  &wal.FactoryOptions{BaseWalDir: dir, Retention: time.Hour, SegmentSize: segSizes[rng.IntN(len(segSizes))], SyncData: rng.IntN(4) != 0},
		nowMs: 1_700_000_000_000, term: 1, lastMut: "open",
	}
	if err := h.open(); err != nil {
		r.Violate("C09/open-error/fresh", err.Error(), nil)
		return r.Done()
	}
	defer func() {
		if h.w != nil {
			_ = h.w.Close()
		}
	}()
	nOps := 30 + rng.IntN(60)
	var kinds []string
	truncOrReopen := false
	for i := 0; i < nOps; i++ {
		ok := true
		p := rng.IntN(100)
		switch {
		case p < 30:
			ok = h.doAppend("append")
		case p < 45:
			ok = h.doAppend("append-async")
		case p < 55:
			ok = h.doAppend("append-and-sync")
		case p < 62:
			ok = h.doSync()
		case p < 68:
			ok = h.doBadAppend()
		case p < 82:
			ok = h.doTruncate()
			truncOrReopen = true
		case p < 85:
			ok = h.doClear()
		case p < 95:
			ok = h.doReopen()
			truncOrReopen = true
		default:
			h.term++
			continue
		}
		if len(h.ops) > 0 {
			kinds = append(kinds, h.ops[len(h.ops)-1].Op)
		}
		if !ok || r.Violations() > 0 {
			break
		}
		if nb := len(h.segmentBases()); nb > 1 {
			r.Max("max:segments", int64(nb))
		}
		if !h.compare() {
			break
		}
		r.Count("steps_compared", 1)
	}
	if r.Get("max:segments") > 1 {
		r.Count("rollovers", 1)
		if truncOrReopen {
			r.Nontrivial()
		}
	}
	r.FP(h.opts.SegmentSize, h.opts.SyncData, strings.Join(kinds, ","))
	if idx < 3 {
		r.Sample(map[string]any{"segment_size": h.opts.SegmentSize, "sync_data": h.opts.SyncData, "ops": h.tailOps(25)})
	}
	return r.Done()
}

func runC09Trim(tier string, seed uint64, idx int) core.Result {
	r := core.NewR("C09.trim", idx)
	rng := core.CaseSeed(seed, "C09.trim", idx)
	dir, err := os.MkdirTemp("", "c09t-")
	if err != nil {
		r.Inconclusive(err.Error())
		return r.Done()
	}
	defer os.RemoveAll(dir)
	retention := time.Duration(1+rng.IntN(50)) * time.Second
	h := &harness{
		r: r, rng: rng, dir: dir, m: newModel(), commit: &commitProvider{v: -1},
		opts:  &wal.FactoryOptions{BaseWalDir: dir, Retention: retention, SegmentSize: segSizes[rng.IntN(5)], SyncData: true},
		clock: &time2.MockedClock{}, trimTick: 5 * time.Millisecond, useShim: true,
		nowMs: 1_700_000_000_000, term: 1, lastMut: "open",
	}
	h.clock.Set(h.nowMs)
	var ticks atomic.Int64
	var cur atomic.Pointer[wal.Wal]
	vhook.Clear()
	vhook.Set("wal.trim.tick", func(_ string, args ...any) {
		if w := cur.Load(); w != nil && len(args) > 0 && args[0] == any(*w) {
			ticks.Add(1)
		}
	})
	defer vhook.Clear()
	if err := h.open(); err != nil {
		r.Violate("C09/open-error/fresh", err.Error(), nil)
		return r.Done()
	}
	w0 := h.w
	cur.Store(&w0)
	defer func() { _ = h.w.Close() }()

	waitTicks := func() bool {
		start := ticks.Load()
		dl := time.Now().Add(10 * time.Second)
		for ticks.Load() < start+2 {
			if time.Now().After(dl) {
				r.Inconclusive("trimmer did not tick twice in 10s")
				return false
			}
			time.Sleep(2 * time.Millisecond)
		}
		r.Count("trim_ticks_observed", 2)
		return true
	}

	var trace []map[string]any
	observeTrim := func(last int64) bool {
		firstBefore := h.m.first
		if !waitTicks() {
			return false
		}
		firstAfter := h.w.FirstOffset()
		cutoff := uint64(h.nowMs) - uint64(retention/time.Millisecond)
		trace = append(trace, map[string]any{"appended_to": last, "commit": h.commit.v, "first_before": firstBefore, "first_after": firstAfter, "cutoff_ms": cutoff})
		if firstAfter < firstBefore {
			h.viol("trim-first-decreased", fmt.Sprintf("first went from %d to %d", firstBefore, firstAfter))
			return false
		}
		if firstAfter > firstBefore {
			r.Count("trims_observed", 1)
			r.Nontrivial()
			for off := h.m.first; off < firstAfter; off++ {
				e := h.m.get(off)
				if e == nil {
					h.viol("trim-beyond-log", fmt.Sprintf("first=%d beyond the log", firstAfter))
					return false
				}
				if e.Ts > cutoff {
					h.viol("trim-too-young", fmt.Sprintf("offset %d removed, ts=%d > cutoff=%d (retention %v)", off, e.Ts, cutoff, retention))
					return false
				}
				if off > h.commit.v {
					h.viol("trim-above-commit", fmt.Sprintf("offset %d removed, commit offset is %d", off, h.commit.v))
					return false
				}
				r.Count("entries_trimmed", 1)
			}
			k := firstAfter - h.m.entries[0].Offset
			h.m.ghosts = append(h.m.ghosts, h.m.entries[:k]...)
			h.m.entries = append([]mEntry{}, h.m.entries[k:]...)
			h.m.first = firstAfter
		}
		return true
	}
	rounds := 4 + rng.IntN(6)
	for round := 0; round < rounds && r.Violations() == 0; round++ {
		// append a burst; timestamps advance 0..3s per entry
		n := 3 + rng.IntN(25)
		for i := 0; i < n; i++ {
			h.nowMs += rng.Int64N(3000)
			h.clock.Set(h.nowMs)
			if !h.doAppend("append") {
				return r.Done()
			}
		}
		// choose commit offset anywhere in [-1, last]
		last := h.m.lastAppended()
		switch rng.IntN(4) {
		case 0:
			h.commit.v = last
		case 1:
			if h.commit.v < last {
				h.commit.v += rng.Int64N(last - h.commit.v + 1)
			}
		default:
		}
		// advance the clock 0..2x retention
		h.nowMs += rng.Int64N(int64(2 * retention / time.Millisecond))
		h.clock.Set(h.nowMs)
		h.lastMutSet("trim")
		if !observeTrim(last) {
			break
		}
		if !h.compare() {
			break
		}
		if rng.IntN(4) == 0 {
			cur.Store(nil)
			ok := h.doReopen()
			nw := h.w
			cur.Store(&nw)
			if ok && !observeTrim(last) {
				break
			}
			if !ok || !h.compare() {
				break
			}
		}
	}
	r.FP(h.opts.SegmentSize, retention, core.JSON(trace))
	if idx < 2 {
		r.Sample(map[string]any{"segment_size": h.opts.SegmentSize, "retention": retention.String(), "rounds": trace})
	}
	return r.Done()
}

func runC09Concurrent(tier string, seed uint64, idx int) core.Result {
	r := core.NewR("C09.concurrent", idx)
	rng := core.CaseSeed(seed, "C09.concurrent", idx)
	dir, err := os.MkdirTemp("", "c09c-")
	if err != nil {
		r.Inconclusive(err.Error())
		return r.Done()
	}
	defer os.RemoveAll(dir)
	segSize := segSizes[2+rng.IntN(5)]
	w, err := wal.NewWalFactory(&wal.FactoryOptions{BaseWalDir: dir, Retention: time.Hour, SegmentSize: segSize, SyncData: true}).NewWal("ns", 1, &commitProvider{v: -1})
	if err != nil {
		r.Violate("C09/open-error/fresh", err.Error(), nil)
		return r.Done()
	}
	defer w.Close()
	total := int64(300 + rng.IntN(700))
	valOf := func(off int64) []byte {
		n := 1 + int((off*7919+int64(seed))%int64(segSize/3))
		b := make([]byte, n)
		for i := range b {
			b[i] = byte(off + int64(i))
		}
		return b
	}
	var appended atomic.Int64
	appended.Store(-1)
	var wg sync.WaitGroup
	stop := make(chan struct{})
	var mu sync.Mutex
	fail := func(clause, detail string) {
		mu.Lock()
		r.Violate("C09/concurrent-"+clause, detail, map[string]any{"segment_size": segSize, "total": total})
		mu.Unlock()
	}
	check := func(e *proto.LogEntry, off int64) bool {
		want := valOf(off)
		if e.Offset != off || e.Term != 1+off/100 || string(e.Value) != string(want) {
			fail("read-mismatch", fmt.Sprintf("entry read at %d: offset=%d term=%d len=%d, want len=%d", off, e.Offset, e.Term, len(e.Value), len(want)))
			return false
		}
		return true
	}
	// forward readers
	for i := 0; i < 3; i++ {
		wg.Add(1)
		go func(i int) {
			defer wg.Done()
			next := int64(0)
			var rd wal.Reader
			for {
				select {
				case <-stop:
					if rd != nil {
						_ = rd.Close()
					}
					return
				default:
				}
				if rd == nil {
					if w.LastOffset() < next {
						time.Sleep(50 * time.Microsecond)
						continue
					}
					var err error
					if rd, err = w.NewReader(next - 1); err != nil {
						fail("reader-open", err.Error())
						return
					}
				}
				if !rd.HasNext() {
					if next >= total {
						_ = rd.Close()
						return
					}
					time.Sleep(50 * time.Microsecond)
					continue
				}
				e, err := rd.ReadNext()
				if err != nil {
					fail("read-error", errClass(err))
					return
				}
				if !check(e, next) {
					return
				}
				if next > appended.Load() {
					// LastOffset is the synced head: it can never exceed what the appender finished
				}
				next++
				r.Count("concurrent_reads", 1)
				if i == 0 && next%97 == 0 {
					_ = rd.Close() // reopen the reader from time to time
					rd = nil
				}
			}
		}(i)
	}
	// reverse reader loop
	wg.Add(1)
	go func() {
		defer wg.Done()
		for {
			select {
			case <-stop:
				return
			default:
			}
			rr, err := w.NewReverseReader()
			if err != nil {
				fail("reverse-open", err.Error())
				return
			}
			n := 0
			var prev int64 = -1
			for rr.HasNext() && n < 50 {
				e, err := rr.ReadNext()
				if err != nil {
					fail("reverse-read-error", errClass(err))
					_ = rr.Close()
					return
				}
				if prev != -1 && e.Offset != prev-1 {
					fail("reverse-order", fmt.Sprintf("reverse read went from %d to %d", prev, e.Offset))
				}
				if !check(e, e.Offset) {
					_ = rr.Close()
					return
				}
				prev = e.Offset
				n++
				r.Count("concurrent_reverse_reads", 1)
			}
			_ = rr.Close()
			if appended.Load() >= total-1 {
				return
			}
			time.Sleep(200 * time.Microsecond)
		}
	}()
	// appender
	for off := int64(0); off < total && r.Violations() == 0; off++ {
		e := &proto.LogEntry{Term: 1 + off/100, Offset: off, Value: valOf(off), Timestamp: uint64(off)}
		var err error
		switch off % 3 {
		case 0:
			err = w.Append(e)
		case 1:
			err = w.AppendAsync(e)
			if err == nil && off%2 == 0 {
				err = w.Sync(context.Background())
			}
		default:
			ch := make(chan error, 1)
			w.AppendAndSync(e, func(err error) { ch <- err })
			err = <-ch
		}
		if err != nil {
			fail("append-error", errClass(err))
			break
		}
		appended.Store(off)
	}
	_ = w.Sync(context.Background())
	done := make(chan struct{})
	go func() { wg.Wait(); close(done) }()
	select {
	case <-done:
	case <-time.After(60 * time.Second):
		close(stop)
		<-done
		if r.Violations() == 0 {
			r.Inconclusive("readers did not reach the end within 60s")
		}
	}
	if r.Get("concurrent_reads") > 0 && total*int64(segSize/6) > int64(segSize)*2 {
		r.Nontrivial()
	}
	r.FP(segSize, total, r.Get("concurrent_reads")/100)
	if idx < 1 {
		r.Sample(map[string]any{"segment_size": segSize, "entries": total, "forward_reads": r.Get("concurrent_reads"), "reverse_reads": r.Get("concurrent_reverse_reads")})
	}
	return r.Done()
}
