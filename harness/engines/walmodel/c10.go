package walmodel

import (
	"bytes"
	"context"
	"encoding/binary"
	"fmt"
	"io"
	"math/rand/v2"
	"os"
	"path/filepath"
	"runtime"
	"runtime/debug"
	"strings"
	"time"

	pb "google.golang.org/protobuf/proto"

	"github.com/oxia-db/oxia/proto"
	"github.com/oxia-db/oxia/server/wal"
	"github.com/oxia-db/oxia/server/wal/codec"

	"verif/lib/core"
)

func init() {
	core.Register(&core.Part{
		Name: "C10.crash", Prop: "C10",
		Cases: func(tier string) int { return tierN(tier, 24, 400) },
		Run:   runC10Crash,
		Rule: "per case one WAL (v2 or hand-written v1 segments) with a synced prefix and an unsynced tail inside the current segment; every subset (<=8 differing 4KiB pages; 256 seeded samples above) of tail pages persisted is reopened with the true commit offset; " +
			"accept iff no error/panic and log = synced prefix ++ prefix of the tail, bit-identical; non-trivial = >=2 differing pages; distinct = (format, segment size, #pages, tail shape)",
		MinNontrivial:    func(tier string) int { return tierN(tier, 8, 150) },
		RequiredCounters: []string{"crash_images_opened", "crash_images_partial_tail"},
	})
	core.Register(&core.Part{
		Name: "C10.damage", Prop: "C10",
		Cases: func(tier string) int { return tierN(tier, 30, 400) },
		Run:   runC10Damage,
		Rule: "per case one multi-segment WAL with commit offset c; mutations enumerate the header-field value table on selected records (first/last of a segment, c, c+1, head) plus zero runs, random runs, bit flips in payloads and index files, committed and uncommitted, both formats; " +
			"accept iff (uncommitted damage) reopen succeeds and every returned entry is bit-identical, nothing before the damage lost; (committed damage) error at open or at read, never a silent shorter log or a wrong entry; non-trivial = mutation changed bytes of a live record or index",
		MinNontrivial:    func(tier string) int { return tierN(tier, 20, 300) },
		RequiredCounters: []string{"mutations", "mut_committed", "mut_uncommitted", "mut_index", "open_errors", "read_errors"},
	})
}

// ---- building a WAL and knowing where every record lives ----

type recInfo struct {
	mEntry
	payload []byte // marshalled LogEntry
	segBase int64
	fileOff uint32 // start of the record header in the segment file
}

type builtWal struct {
	dir      string // BaseWalDir
	segSize  int32
	v1       bool
	recs     []recInfo
	segBases []int64
	hdr      uint32
}

func (b *builtWal) walDir() string { return filepath.Join(b.dir, "ns", "shard-1") }
func (b *builtWal) ext() string {
	if b.v1 {
		return ".txn"
	}
	return ".txnx"
}
func (b *builtWal) idxExt() string {
	if b.v1 {
		return ".idx"
	}
	return ".idxx"
}
func (b *builtWal) segFile(base int64) string {
	return filepath.Join(b.walDir(), fmt.Sprintf("%d%s", base, b.ext()))
}

func mkEntry(rng *rand.Rand, off int64, maxVal int, now *int64) mEntry {
	n := 1 + rng.IntN(maxVal)
	if rng.IntN(5) == 0 {
		n = 1 + rng.IntN(16)
	}
	v := make([]byte, n)
	for i := range v {
		v[i] = byte(rng.Uint32())
	}
	*now += rng.Int64N(50)
	return mEntry{Offset: off, Term: 1 + off/7, Ts: uint64(*now), Value: v}
}

func toProto(e mEntry) *proto.LogEntry {
	return &proto.LogEntry{Term: e.Term, Offset: e.Offset, Value: e.Value, Timestamp: e.Ts}
}

// locate parses the segment files knowing the payload lengths.
func (b *builtWal) locate() error {
	des, err := os.ReadDir(b.walDir())
	if err != nil {
		return err
	}
	b.segBases = nil
	for _, de := range des {
		if strings.HasSuffix(de.Name(), b.ext()) {
			var base int64
			if _, err := fmt.Sscanf(de.Name(), "%d", &base); err == nil {
				b.segBases = append(b.segBases, base)
			}
		}
	}
	sortInt64(b.segBases)
	i := 0
	for si, base := range b.segBases {
		data, err := os.ReadFile(b.segFile(base))
		if err != nil {
			return err
		}
		if i >= len(b.recs) {
			break
		}
		if b.recs[i].Offset != base {
			return fmt.Errorf("segment base %d does not match next record %d", base, b.recs[i].Offset)
		}
		p := uint32(0)
		for i < len(b.recs) {
			if si+1 < len(b.segBases) && b.recs[i].Offset >= b.segBases[si+1] {
				break
			}
			if int(p)+4 > len(data) {
				break
			}
			l := binary.BigEndian.Uint32(data[p:])
			if l == 0 {
				break
			}
			if int(l) != len(b.recs[i].payload) {
				return fmt.Errorf("record %d: length on disk %d, expected %d", b.recs[i].Offset, l, len(b.recs[i].payload))
			}
			b.recs[i].segBase = base
			b.recs[i].fileOff = p
			p += b.hdr + l
			i++
		}
	}
	return nil
}

func sortInt64(a []int64) {
	for i := 1; i < len(a); i++ {
		for j := i; j > 0 && a[j] < a[j-1]; j-- {
			a[j], a[j-1] = a[j-1], a[j]
		}
	}
}

// writeV1 lays out entries in v1 segment files the way the v1 codec did.
func writeV1(b *builtWal, entries []mEntry) error {
	if err := os.MkdirAll(b.walDir(), 0o755); err != nil {
		return err
	}
	v1 := codec.SupportedCodecs[1]
	buf := make([]byte, int(b.segSize)+1)
	var idx []byte
	base := int64(-1)
	pos := uint32(0)
	flush := func(closed bool) error {
		if base < 0 {
			return nil
		}
		if err := os.WriteFile(b.segFile(base), buf, 0o644); err != nil {
			return err
		}
		if closed {
			return v1.WriteIndex(filepath.Join(b.walDir(), fmt.Sprintf("%d.idx", base)), idx)
		}
		return nil
	}
	for _, e := range entries {
		payload, _ := pb.Marshal(toProto(e))
		if base < 0 || pos+4+uint32(len(payload)) > uint32(b.segSize) {
			if err := flush(true); err != nil {
				return err
			}
			base = e.Offset
			pos = 0
			idx = nil
			buf = make([]byte, int(b.segSize)+1)
		}
		n, _ := v1.WriteRecord(buf, pos, 0, payload)
		idx = binary.BigEndian.AppendUint32(idx, pos)
		pos += n
	}
	return flush(false)
}

// fillV1Tail resizes the value of the last entry so that the v1 segment holding it ends k bytes before
// the end of the segment. Returns false when the layout leaves no room for that.
func fillV1Tail(entries []mEntry, segSize int32, k int) (ok bool) {
	pos := uint32(0)
	for i := range entries[:len(entries)-1] {
		p, _ := pb.Marshal(toProto(entries[i]))
		if pos+4+uint32(len(p)) > uint32(segSize) {
			pos = 0
		}
		pos += 4 + uint32(len(p))
	}
	want := int(segSize) - k - 4 - int(pos) // marshalled length of the last entry
	if want < 40 {
		pos = 0
		want = int(segSize) - k - 4
	}
	last := &entries[len(entries)-1]
	orig := last.Value
	defer func() {
		if !ok {
			last.Value = orig
		}
	}()
	for v := want; v > want-12 && v > 0; v-- {
		last.Value = make([]byte, v)
		for i := range last.Value {
			last.Value[i] = byte(i*31 + 7)
		}
		p, _ := pb.Marshal(toProto(*last))
		if len(p) == want {
			return true
		}
	}
	return false
}

func copyDir(src, dst string) error {
	return filepath.Walk(src, func(p string, info os.FileInfo, err error) error {
		if err != nil {
			return err
		}
		rel, _ := filepath.Rel(src, p)
		t := filepath.Join(dst, rel)
		if info.IsDir() {
			return os.MkdirAll(t, 0o755)
		}
		in, err := os.Open(p)
		if err != nil {
			return err
		}
		defer in.Close()
		out, err := os.Create(t)
		if err != nil {
			return err
		}
		defer out.Close()
		_, err = io.Copy(out, in)
		return err
	})
}

// ---- reopening and reading with panic capture ----

type reopenResult struct {
	panicMsg string
	openErr  error
	last     int64
	first    int64
	entries  map[int64]*proto.LogEntry
	readErr  map[int64]string
}

// reopenGuarded runs reopen under a watchdog. A recovery that is still running after 20s *and* has
// grown the heap by more than 256 MiB on a WAL of a few KiB is a runaway loop (verdict); a slow one
// without that logical evidence is inconclusive.
func reopenGuarded(r *core.R, dir string, segSize int32, commit int64, upTo int64) (res reopenResult, hang bool, ok bool) {
	var before runtime.MemStats
	runtime.ReadMemStats(&before)
	ch := make(chan reopenResult, 1)
	go func() { ch <- reopen(dir, segSize, commit, upTo) }()
	select {
	case res = <-ch:
		return res, false, true
	case <-time.After(20 * time.Second):
		var after runtime.MemStats
		runtime.ReadMemStats(&after)
		r.RestartChild()
		if after.HeapAlloc > before.HeapAlloc+256<<20 {
			return res, true, true
		}
		r.Inconclusive("recovery did not finish in 20s (no runaway evidence)")
		return res, false, false
	}
}

func reopen(dir string, segSize int32, commit int64, upTo int64) (res reopenResult) {
	res.entries = map[int64]*proto.LogEntry{}
	res.readErr = map[int64]string{}
	res.last, res.first = -1, -1
	defer func() {
		if p := recover(); p != nil {
			res.panicMsg = fmt.Sprint(p)
			if os.Getenv("VERIF_DEBUG_STACKS") != "" {
				fmt.Fprintf(os.Stderr, "PANIC %v\n%s\n", p, debug.Stack())
			}
		}
	}()
	w, err := wal.NewWalFactory(&wal.FactoryOptions{BaseWalDir: dir, Retention: time.Hour, SegmentSize: segSize, SyncData: true}).
		NewWal("ns", 1, &commitProvider{v: commit})
	if err != nil {
		res.openErr = err
		return res
	}
	defer w.Close()
	res.last, res.first = w.LastOffset(), w.FirstOffset()
	// read every offset individually so that one failing record does not hide the others
	for off := res.first; off >= 0 && off <= res.last && off <= upTo+2; off++ {
		rd, err := w.NewReader(off - 1)
		if err != nil {
			res.readErr[off] = errClass(err)
			continue
		}
		e, err := rd.ReadNext()
		_ = rd.Close()
		if err != nil {
			res.readErr[off] = errClass(err)
			continue
		}
		res.entries[off] = e
	}
	return res
}

func buildV2(rng *rand.Rand, b *builtWal, entries []mEntry, syncedUpTo int64) (wal.Wal, error) {
	w, err := wal.NewWalFactory(&wal.FactoryOptions{BaseWalDir: b.dir, Retention: time.Hour, SegmentSize: b.segSize, SyncData: true}).
		NewWal("ns", 1, &commitProvider{v: -1})
	if err != nil {
		return nil, err
	}
	for _, e := range entries {
		if e.Offset > syncedUpTo {
			break
		}
		if err := w.AppendAsync(toProto(e)); err != nil {
			_ = w.Close()
			return nil, err
		}
	}
	if err := w.Sync(context.Background()); err != nil {
		_ = w.Close()
		return nil, err
	}
	return w, nil
}

// ---- C10.crash ----

func runC10Crash(tier string, seed uint64, idx int) core.Result {
	r := core.NewR("C10.crash", idx)
	rng := core.CaseSeed(seed, "C10.crash", idx)
	root, err := os.MkdirTemp("", "c10-")
	if err != nil {
		r.Inconclusive(err.Error())
		return r.Done()
	}
	defer os.RemoveAll(root)
	v1 := rng.IntN(4) == 0
	segSize := int32([]int{16384, 32768, 65536}[rng.IntN(3)])
	b := &builtWal{dir: filepath.Join(root, "A"), segSize: segSize, v1: v1, hdr: 12}
	if v1 {
		b.hdr = 4
	}
	now := int64(1_700_000_000_000)
	// synced prefix: may span earlier segments; tail must stay in the current segment.
	nSynced := 3 + rng.IntN(30)
	maxVal := 200 + rng.IntN(3000)
	var entries []mEntry
	for i := 0; i < nSynced; i++ {
		entries = append(entries, mkEntry(rng, int64(i), maxVal, &now))
	}
	synced := int64(nSynced - 1)
	commit := synced - rng.Int64N(3)
	if commit < -1 {
		commit = -1
	}
	nTail := 1 + rng.IntN(12)
	for i := 0; i < nTail; i++ {
		entries = append(entries, mkEntry(rng, int64(nSynced+i), maxVal, &now))
	}
	for i := range entries {
		p, _ := pb.Marshal(toProto(entries[i]))
		b.recs = append(b.recs, recInfo{mEntry: entries[i], payload: p})
	}

	dirB := filepath.Join(root, "B")
	if v1 {
		// image A: synced prefix only; image B: all entries (same layout prefix because v1 layout is sequential)
		if err := writeV1(b, entries[:nSynced]); err != nil {
			r.Inconclusive(err.Error())
			return r.Done()
		}
		bb := *b
		bb.dir = dirB
		if err := writeV1(&bb, entries); err != nil {
			r.Inconclusive(err.Error())
			return r.Done()
		}
	} else {
		w, err := buildV2(rng, b, entries, synced)
		if err != nil {
			r.Violate("C10/build-error", err.Error(), nil)
			return r.Done()
		}
		// image A = files at the last sync: copy now (the mapping is shared, the page cache is what we read)
		dirA2 := filepath.Join(root, "A2")
		if err := copyDir(b.dir, dirA2); err != nil {
			_ = w.Close()
			r.Inconclusive(err.Error())
			return r.Done()
		}
		for _, e := range entries[nSynced:] {
			if err := w.AppendAsync(toProto(e)); err != nil {
				_ = w.Close()
				r.Violate("C10/build-error", err.Error(), nil)
				return r.Done()
			}
		}
		if err := copyDir(b.dir, dirB); err != nil {
			_ = w.Close()
			r.Inconclusive(err.Error())
			return r.Done()
		}
		_ = w.Close()
		_ = os.RemoveAll(b.dir)
		b.dir = dirA2
	}
	// segment lists must be identical (tail stayed in the current segment), else skip as trivial
	bA, bB := *b, *b
	bB.dir = dirB
	bB.recs = append([]recInfo{}, b.recs...)
	if err := bB.locate(); err != nil {
		r.Inconclusive("locate: " + err.Error())
		return r.Done()
	}
	bA.recs = append([]recInfo{}, b.recs[:nSynced]...)
	if err := bA.locate(); err != nil {
		r.Inconclusive("locate A: " + err.Error())
		return r.Done()
	}
	if len(bA.segBases) != len(bB.segBases) {
		// the tail rolled over into a new segment: keep only the all-or-nothing images
		r.Count("tail_rolled_over", 1)
	}
	cur := bB.segBases[len(bB.segBases)-1]
	if len(bA.segBases) != len(bB.segBases) {
		cur = bA.segBases[len(bA.segBases)-1]
	}
	dataA, _ := os.ReadFile(bA.segFile(cur))
	dataB, _ := os.ReadFile(bB.segFile(cur))
	if len(dataA) != len(dataB) {
		r.Inconclusive("segment sizes differ")
		return r.Done()
	}
	const page = 4096
	var diffPages []int
	for p := 0; p*page < len(dataA); p++ {
		end := (p + 1) * page
		if end > len(dataA) {
			end = len(dataA)
		}
		if !bytes.Equal(dataA[p*page:end], dataB[p*page:end]) {
			diffPages = append(diffPages, p)
		}
	}
	np := len(diffPages)
	var masks []uint64
	if np <= 8 {
		for m := uint64(0); m < 1<<uint(np); m++ {
			masks = append(masks, m)
		}
	} else {
		masks = append(masks, 0, (1<<uint(np))-1)
		for i := 0; i < 254; i++ {
			masks = append(masks, rng.Uint64()&((1<<uint(np))-1))
		}
	}
	work := filepath.Join(root, "W")
	fmtName := "v2"
	if v1 {
		fmtName = "v1"
	}
	for _, m := range masks {
		_ = os.RemoveAll(work)
		// start from image B's directory when the tail rolled over and mask is full, else from A
		if err := copyDir(bA.dir, work); err != nil {
			r.Inconclusive(err.Error())
			return r.Done()
		}
		hy := append([]byte{}, dataA...)
		for i, p := range diffPages {
			if m&(1<<uint(i)) != 0 {
				end := (p + 1) * page
				if end > len(hy) {
					end = len(hy)
				}
				copy(hy[p*page:end], dataB[p*page:end])
			}
		}
		wb := bA
		wb.dir = work
		if err := os.WriteFile(wb.segFile(cur), hy, 0o644); err != nil {
			r.Inconclusive(err.Error())
			return r.Done()
		}
		res, hang, ok := reopenGuarded(r, work, segSize, commit, int64(len(entries)))
		r.Count("crash_images_opened", 1)
		wit := map[string]any{"format": fmtName, "segment_size": segSize, "synced": synced, "commit": commit, "tail": nTail, "diff_pages": diffPages, "mask": m}
		if !ok {
			return r.Done()
		}
		switch {
		case hang:
			r.Violate("C10/crash-image/hang:"+fmtName, "recovery runs away (20s, heap grew >256MiB)", wit)
			return r.Done()
		case res.panicMsg != "":
			r.Violate("C10/crash-image/panic:"+fmtName, "recovery panicked: "+numRe(res.panicMsg), wit)
		case res.openErr != nil:
			r.Violate("C10/crash-image/open-error:"+fmtName, "reopen of a pure crash image failed: "+errClass(res.openErr), wit)
		case res.last < synced:
			r.Violate("C10/crash-image/lost-synced:"+fmtName, fmt.Sprintf("last=%d after recovery, %d was synced", res.last, synced), wit)
		case res.last >= int64(len(entries)):
			r.Violate("C10/crash-image/fabricated:"+fmtName, fmt.Sprintf("last=%d beyond what was appended (%d)", res.last, len(entries)-1), wit)
		default:
			for off := res.first; off <= res.last; off++ {
				if msg, bad := res.readErr[off]; bad {
					if v1 {
						r.Violate("C10/v1-no-checksum/torn-tail-accepted", fmt.Sprintf("entry %d is inside the recovered log but unreadable: %s", off, msg), wit)
					} else {
						r.Violate("C10/crash-image/read-error:"+fmtName, fmt.Sprintf("entry %d unreadable after recovery: %s", off, msg), wit)
					}
					break
				}
				if !eqEntry(res.entries[off], &entries[off]) {
					if v1 {
						r.Violate("C10/v1-no-checksum/torn-tail-accepted", fmt.Sprintf("entry %d differs from what was appended (synced=%d)", off, synced), wit)
					} else {
						r.Violate("C10/crash-image/wrong-entry:"+fmtName, fmt.Sprintf("entry %d differs from what was appended (synced=%d)", off, synced), wit)
					}
					break
				}
			}
			if res.last > synced && res.last < int64(len(entries))-1 {
				r.Count("crash_images_partial_tail", 1)
			}
			if res.last == synced && m != 0 {
				r.Count("crash_images_tail_discarded", 1)
			}
		}
		if r.Violations() > 2 {
			break
		}
	}
	if np >= 2 {
		r.Nontrivial()
	}
	r.Max("max:diff_pages", int64(np))
	r.FP(fmtName, segSize, np, nTail, nSynced)
	if idx < 2 {
		r.Sample(map[string]any{"format": fmtName, "segment_size": segSize, "synced_entries": nSynced, "tail_entries": nTail, "differing_pages": diffPages, "images": len(masks)})
	}
	return r.Done()
}

// ---- C10.damage ----

var lenTable = func(rec recInfo, segSize int32) []uint32 {
	l := uint32(len(rec.payload))
	rem := uint32(segSize) - rec.fileOff
	return []uint32{0, 1, l - 1, l + 1, rem, rem - 1, rem + 1, rem - 12, rem - 11, rem - 13, rem - 4, rem - 3,
		0x7FFFFFFF, 0x80000000, 0xFFFFFFF3, 0xFFFFFFF4, 0xFFFFFFF5, 0xFFFFFFF8, 0xFFFFFFFB, 0xFFFFFFFC, 0xFFFFFFFF}
}

type mutation struct {
	Kind   string `json:"kind"`
	Target int64  `json:"target"` // damaged entry offset (first one), -1 for index files
	File   string `json:"file"`
	Pos    int64  `json:"pos"`
	Len    int    `json:"len"`
	Val    string `json:"val,omitempty"`
	// AlsoTornIndex: the index file of the target's (closed) segment is cut to 3 bytes as well, so that it has to be
	// rebuilt from the damaged segment
	AlsoTornIndex string `json:"also_torn_index,omitempty"`
	data          []byte
}

func runC10Damage(tier string, seed uint64, idx int) core.Result {
	r := core.NewR("C10.damage", idx)
	rng := core.CaseSeed(seed, "C10.damage", idx)
	root, err := os.MkdirTemp("", "c10d-")
	if err != nil {
		r.Inconclusive(err.Error())
		return r.Done()
	}
	defer os.RemoveAll(root)
	v1 := rng.IntN(5) == 0
	segSize := int32([]int{512, 1024, 2048, 4096, 8192}[rng.IntN(5)])
	b := &builtWal{dir: filepath.Join(root, "A"), segSize: segSize, v1: v1, hdr: 12}
	fmtName := "v2"
	if v1 {
		b.hdr = 4
		fmtName = "v1"
	}
	now := int64(1_700_000_000_000)
	n := 10 + rng.IntN(50)
	maxVal := int(segSize)/2 - 60
	if rng.IntN(2) == 0 {
		maxVal = int(segSize) / 8
	}
	var entries []mEntry
	for i := 0; i < n; i++ {
		entries = append(entries, mkEntry(rng, int64(i), maxVal, &now))
	}
	for i := range entries {
		p, _ := pb.Marshal(toProto(entries[i]))
		b.recs = append(b.recs, recInfo{mEntry: entries[i], payload: p})
	}
	if v1 {
		if rng.IntN(2) == 0 {
			// make the current segment end 1..3 bytes before its end (a legal fill level)
			if fillV1Tail(entries, segSize, 1+rng.IntN(3)) {
				r.Count("v1_tail_fill", 1)
				p, _ := pb.Marshal(toProto(entries[n-1]))
				b.recs[n-1] = recInfo{mEntry: entries[n-1], payload: p}
			}
		}
		if err := writeV1(b, entries); err != nil {
			r.Inconclusive(err.Error())
			return r.Done()
		}
	} else {
		w, err := buildV2(rng, b, entries, int64(n))
		if err != nil {
			r.Violate("C10/build-error", err.Error(), nil)
			return r.Done()
		}
		_ = w.Close()
	}
	if err := b.locate(); err != nil {
		r.Inconclusive("locate: " + err.Error())
		return r.Done()
	}
	lastSeg := b.segBases[len(b.segBases)-1]
	head := int64(n - 1)
	// commit offset: somewhere; bias to the last segment so that both classes occur there
	commit := rng.Int64N(int64(n)+1) - 1
	if rng.IntN(2) == 0 && lastSeg <= head {
		commit = lastSeg + rng.Int64N(head-lastSeg+1) - 1
		if rng.IntN(3) == 0 {
			commit = head
		}
	}
	// sanity: the undamaged WAL reopens and equals the entries
	{
		res := reopen(b.dir, segSize, commit, head)
		if res.panicMsg != "" || res.openErr != nil || res.last != head {
			r.Violate("C10/undamaged-reopen:"+fmtName, fmt.Sprintf("undamaged WAL does not reopen: panic=%q err=%v last=%d want %d", res.panicMsg, res.openErr, res.last, head), nil)
			return r.Done()
		}
		for off := int64(0); off <= head; off++ {
			if !eqEntry(res.entries[off], &entries[off]) {
				r.Violate("C10/undamaged-reopen:"+fmtName, fmt.Sprintf("entry %d differs after clean reopen (%s)", off, res.readErr[off]), nil)
				return r.Done()
			}
		}
	}

	// pick target records
	targets := map[int64]bool{0: true, head: true}
	if commit >= 0 {
		targets[commit] = true
	}
	if commit+1 <= head {
		targets[commit+1] = true
	}
	for _, sb := range b.segBases {
		targets[sb] = true
		if sb > 0 {
			targets[sb-1] = true
		}
	}
	for i := 0; i < 3; i++ {
		targets[rng.Int64N(int64(n))] = true
	}
	var muts []mutation
	u32 := func(v uint32) []byte { x := make([]byte, 4); binary.BigEndian.PutUint32(x, v); return x }
	for t := range targets {
		rec := b.recs[t]
		f := b.segFile(rec.segBase)
		for _, v := range lenTable(rec, segSize) {
			muts = append(muts, mutation{Kind: "len", Target: t, File: f, Pos: int64(rec.fileOff), Len: 4, Val: fmt.Sprintf("0x%X", v), data: u32(v)})
		}
		for i := 0; i < 3; i++ {
			muts = append(muts, mutation{Kind: "len", Target: t, File: f, Pos: int64(rec.fileOff), Len: 4, Val: "rand", data: u32(rng.Uint32())})
		}
		if !v1 {
			for _, fld := range []struct {
				name string
				off  int64
			}{{"prevcrc", 4}, {"crc", 8}} {
				muts = append(muts,
					mutation{Kind: fld.name, Target: t, File: f, Pos: int64(rec.fileOff) + fld.off, Len: 4, Val: "0", data: u32(0)},
					mutation{Kind: fld.name, Target: t, File: f, Pos: int64(rec.fileOff) + fld.off, Len: 4, Val: "rand", data: u32(rng.Uint32())},
				)
			}
		}
		pl := len(rec.payload)
		ps := int64(rec.fileOff) + int64(b.hdr)
		// payload: zero run, random run, bit flip
		a := rng.IntN(pl)
		ln := 1 + rng.IntN(pl-a)
		muts = append(muts, mutation{Kind: "payload-zero", Target: t, File: f, Pos: ps + int64(a), Len: ln, data: make([]byte, ln)})
		rb := make([]byte, ln)
		for i := range rb {
			rb[i] = byte(rng.Uint32())
		}
		muts = append(muts, mutation{Kind: "payload-rand", Target: t, File: f, Pos: ps + int64(a), Len: ln, data: rb})
		muts = append(muts, mutation{Kind: "payload-bitflip", Target: t, File: f, Pos: ps + int64(rng.IntN(pl)), Len: 1, Val: fmt.Sprint(rng.IntN(8))})
		// whole-record zeroing (torn write of a full page)
		muts = append(muts, mutation{Kind: "record-zero", Target: t, File: f, Pos: int64(rec.fileOff), Len: int(b.hdr) + pl, data: make([]byte, int(b.hdr)+pl)})
	}
	// a closed segment that lost its index file AND has a damaged record that is not its last one: the index has to
	// be rebuilt by scanning the damaged segment
	if !v1 {
		for si, sb := range b.segBases[:len(b.segBases)-1] {
			segEnd := b.segBases[si+1] - 1
			if segEnd-sb < 2 {
				continue
			}
			t := sb + rng.Int64N(segEnd-sb) // never the last record of the segment
			rec := b.recs[t]
			idxf := filepath.Join(b.walDir(), fmt.Sprintf("%d%s", sb, b.idxExt()))
			if st, err := os.Stat(idxf); err != nil || st.Size() < 4 {
				continue
			}
			pl := len(rec.payload)
			ps := int64(rec.fileOff) + int64(b.hdr)
			muts = append(muts,
				mutation{Kind: "payload-bitflip+index-torn", Target: t, File: b.segFile(rec.segBase), Pos: ps + int64(rng.IntN(pl)), Len: 1, Val: fmt.Sprint(rng.IntN(8)), AlsoTornIndex: idxf},
				mutation{Kind: "crc+index-torn", Target: t, File: b.segFile(rec.segBase), Pos: int64(rec.fileOff) + 8, Len: 4, Val: "rand", data: u32(rng.Uint32()), AlsoTornIndex: idxf})
		}
	}
	// index files of closed segments
	for _, sb := range b.segBases[:len(b.segBases)-1] {
		f := filepath.Join(b.walDir(), fmt.Sprintf("%d%s", sb, b.idxExt()))
		st, err := os.Stat(f)
		if err != nil || st.Size() == 0 {
			continue
		}
		for i := 0; i < 3; i++ {
			pos := rng.Int64N(st.Size())
			ln := 1 + rng.IntN(int(st.Size()-pos))
			if ln > 8 {
				ln = 8
			}
			d := make([]byte, ln)
			kind := "index-zero"
			if i > 0 {
				kind = "index-rand"
				for j := range d {
					d[j] = byte(rng.Uint32())
				}
			}
			muts = append(muts, mutation{Kind: kind, Target: -1, File: f, Pos: pos, Len: ln, data: d})
		}
		// a torn write of the index file itself (it is written with plain write() at rollover, not synced):
		// only a prefix of it made it to disk
		for _, keep := range []int64{0, 1, 3, 4, st.Size() / 2, st.Size() - 1} {
			if keep >= 0 && keep < st.Size() {
				muts = append(muts, mutation{Kind: "index-torn", Target: -1, File: f, Pos: keep, Len: int(st.Size() - keep), Val: fmt.Sprintf("keep=%d", keep)})
			}
		}
	}

	work := filepath.Join(root, "W")
	kindsSeen := map[string]bool{}
	for _, mu := range muts {
		_ = os.RemoveAll(work)
		if err := copyDir(b.dir, work); err != nil {
			r.Inconclusive(err.Error())
			return r.Done()
		}
		rel, _ := filepath.Rel(b.dir, mu.File)
		tf := filepath.Join(work, rel)
		data, err := os.ReadFile(tf)
		if err != nil {
			continue
		}
		orig := append([]byte{}, data...)
		if mu.Kind == "index-torn" {
			data = data[:mu.Pos]
		} else if strings.HasPrefix(mu.Kind, "payload-bitflip") {
			var bit int
			fmt.Sscan(mu.Val, &bit)
			data[mu.Pos] ^= 1 << uint(bit)
		} else {
			copy(data[mu.Pos:], mu.data)
		}
		if bytes.Equal(orig, data) {
			continue // no-op mutation
		}
		if err := os.WriteFile(tf, data, 0o644); err != nil {
			continue
		}
		if mu.AlsoTornIndex != "" {
			irel, _ := filepath.Rel(b.dir, mu.AlsoTornIndex)
			if err := os.Truncate(filepath.Join(work, irel), 3); err != nil {
				continue
			}
			r.Count("mutations_of_a_record_and_the_index_of_its_closed_segment", 1)
		}
		r.Count("mutations", 1)
		fmt.Fprintf(os.Stderr, "mutation %s fmt=%s seg=%d commit=%d\n", core.JSON(mu), fmtName, segSize, commit)
		res, hang, ok := reopenGuarded(r, work, segSize, commit, head)
		if !ok {
			return r.Done()
		}
		class := "uncommitted"
		if mu.Target >= 0 && mu.Target <= commit {
			class = "committed"
		}
		if mu.Target < 0 {
			class = "index"
		}
		r.Count("mut_"+class, 1)
		inLast := mu.Target >= lastSeg
		where := "closed-segment"
		if inLast {
			where = "current-segment"
		}
		valClass := mu.Val
		if mu.Kind == "len" && mu.Val != "rand" {
			valClass = lenClass(mu, b.recs[mu.Target], segSize)
		}
		ctx := fmt.Sprintf("%s:%s:%s:%s", fmtName, class, where, mu.Kind)
		if valClass != "" && mu.Kind == "len" {
			ctx += "=" + valClass
		}
		wit := map[string]any{"format": fmtName, "segment_size": segSize, "entries": n, "commit": commit, "segments": b.segBases, "mutation": mu}
		kindsSeen[ctx] = true
		if hang {
			r.Violate("C10/recovery-hang/"+ctx, "recovery never returns: runaway loop (still running after 20s, heap grew by more than 256MiB on a WAL of a few KiB)", wit)
			return r.Done()
		}
		if res.panicMsg != "" {
			r.Violate("C10/recovery-panic/"+ctx, "recovery panicked: "+numRe(res.panicMsg), wit)
			continue
		}
		if v1 {
			// The legacy format has a bare length header and no checksum: beyond "no panic, no hang"
			// nothing can be detected. Everything else is reported under three format-level signatures.
			if res.openErr != nil {
				r.Count("open_errors", 1)
				continue
			}
			if len(res.readErr) > 0 {
				r.Count("read_errors", 1)
			}
			v1sig := "C10/v1-no-checksum/payload-damage-undetected"
			if mu.Kind == "len" {
				v1sig = "C10/v1-no-checksum/length-damage-undetected"
			} else if class == "index" {
				v1sig = "C10/v1-no-checksum/index-damage-undetected"
			}
			for off, e := range res.entries {
				if off < 0 || off > head || !eqEntry(e, &entries[off]) {
					r.Violate(v1sig, fmt.Sprintf("entry %d returned as valid but differs from what was appended (%s at entry %d)", off, mu.Kind, mu.Target), wit)
					break
				}
			}
			if class == "committed" && res.last < commit {
				if _, readFails := res.readErr[mu.Target]; !readFails {
					r.Violate(v1sig, fmt.Sprintf("damage (%s) to committed entry %d: log silently shortened to %d", mu.Kind, mu.Target, res.last), wit)
				}
			}
			continue
		}
		if res.openErr != nil {
			r.Count("open_errors", 1)
			if class == "uncommitted" && inLast {
				r.Violate("C10/uncommitted-damage-open-error/"+ctx, "damage above the commit offset was not discarded, reopen failed: "+errClass(res.openErr), wit)
			}
			if class == "index" {
				r.Violate("C10/index-damage-open-error/"+ctx, "damaged index file of a closed segment made reopen fail: "+errClass(res.openErr), wit)
			}
			continue
		}
		// returned entries must be genuine
		bad := false
		for off, e := range res.entries {
			if off < 0 || off > head || !eqEntry(e, &entries[off]) {
				r.Violate("C10/wrong-entry-returned/"+ctx, fmt.Sprintf("entry %d returned as valid but differs from what was appended (damage at entry %d)", off, mu.Target), wit)
				bad = true
				break
			}
		}
		if bad {
			continue
		}
		if len(res.readErr) > 0 {
			r.Count("read_errors", 1)
		}
		if res.last > head {
			r.Violate("C10/fabricated-entries/"+ctx, fmt.Sprintf("last=%d beyond the appended head %d", res.last, head), wit)
			continue
		}
		switch class {
		case "committed":
			// must be reported: open error (handled), or a read error at/before the damaged entry; never a silent shorter log
			_, readFails := res.readErr[mu.Target]
			if res.last < commit && !readFails {
				r.Violate("C10/committed-damage-silent-truncation/"+ctx,
					fmt.Sprintf("damage to committed entry %d (commit offset %d): reopen succeeded with last=%d and no error", mu.Target, commit, res.last), wit)
			} else if mu.AlsoTornIndex != "" {
				// the reopen succeeded: the rebuilt index must not have dropped the undamaged committed entries
				// that follow the damaged one in its segment (a hole below the commit offset)
				for off := int64(0); off <= commit && off <= head; off++ {
					if off == mu.Target {
						continue
					}
					if e, ok := res.entries[off]; ok && eqEntry(e, &entries[off]) {
						continue
					}
					// reading it may fail because its segment is reported as corrupted; anything else (the entry
					// is simply not there any more) is a silent loss
					if msg := res.readErr[off]; !strings.Contains(msg, "data corrupted") {
						r.Violate("C10/committed-entries-dropped-silently/"+ctx,
							fmt.Sprintf("damage to committed entry %d of a closed segment whose index had to be rebuilt: reopen succeeded (first=%d last=%d), the undamaged committed entry %d is gone and no corruption is reported for it (%q)", mu.Target, res.first, res.last, off, msg), wit)
						break
					}
					r.Count("undamaged_entries_reported_with_their_corrupted_segment", 1)
				}
			} else if !readFails && res.last >= mu.Target {
				// entry still readable and bit-identical? then the damage must have been outside the live bytes — impossible here
				if _, ok := res.entries[mu.Target]; !ok {
					r.Violate("C10/committed-damage-unreported/"+ctx, fmt.Sprintf("entry %d neither returned nor reported", mu.Target), wit)
				}
			}
		case "uncommitted":
			if inLast {
				if res.last < mu.Target-1 {
					r.Violate("C10/uncommitted-damage-lost-more/"+ctx,
						fmt.Sprintf("damage at entry %d above commit %d: last=%d, entries before the damage were lost", mu.Target, commit, res.last), wit)
				}
				for off := res.first; off <= res.last && off < mu.Target; off++ {
					if msg, bad := res.readErr[off]; bad {
						r.Violate("C10/uncommitted-damage-read-error/"+ctx, fmt.Sprintf("entry %d before the damage unreadable: %s", off, msg), wit)
						break
					}
				}
			}
		case "index":
			if res.last != head {
				r.Violate("C10/index-damage-changed-log/"+ctx, fmt.Sprintf("last=%d, want %d", res.last, head), wit)
			}
			for off := int64(0); off <= head; off++ {
				if msg, bad := res.readErr[off]; bad {
					r.Violate("C10/index-damage-read-error/"+ctx, fmt.Sprintf("entry %d unreadable although only the index file was damaged (it can be rebuilt): %s", off, msg), wit)
					break
				}
			}
		}
	}
	if r.Get("mutations") > 0 {
		r.Nontrivial()
	}
	r.Max("max:segments", int64(len(b.segBases)))
	r.FP(fmtName, segSize, n, commit, len(b.segBases))
	if idx < 2 {
		var ms []mutation
		for i, m := range muts {
			if i%37 == 0 {
				ms = append(ms, m)
			}
		}
		r.Sample(map[string]any{"format": fmtName, "segment_size": segSize, "entries": n, "commit": commit, "segments": b.segBases, "mutations_total": len(muts), "mutations_sample": ms})
	}
	return r.Done()
}

func lenClass(mu mutation, rec recInfo, segSize int32) string {
	var v uint32
	fmt.Sscanf(mu.Val, "0x%X", &v)
	l := uint32(len(rec.payload))
	rem := uint32(segSize) - rec.fileOff
	switch {
	case v == 0:
		return "0"
	case v >= 0xFFFFFFF4:
		return "overflow(>=0xFFFFFFF4)"
	case v >= 0x7FFFFFFF:
		return "huge"
	case v < l:
		return "shorter"
	case v == l+1:
		return "len+1"
	case v+12 > rem && v+12 <= rem+16:
		return "near-segment-end"
	case v > l:
		return "longer"
	}
	return "other"
}
