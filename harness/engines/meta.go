package engines

import "verif/lib/core"

func init() {
	core.Meta["C10"] = core.PropMeta{Level: "fault_enumeration", Assumptions: []string{
		"4 KiB page granularity for torn writes", "truthful commit-offset provider (component level)", "file truncation is not a generated fault"}}
	core.Meta["C05"] = core.PropMeta{Level: "fault_enumeration", Assumptions: []string{
		"crash points sampled by (kind, ordinal) per schedule", "process-crash model for nodes: database back to its flushed image, log files kept",
		"an observer of the metadata file sees what a restart after a process crash at that instant would load"}}
	core.Meta["C09"] = core.PropMeta{Level: "exploration", Assumptions: []string{"list model written from the property text"}}
	core.Meta["C12"] = core.PropMeta{Level: "exploration", Assumptions: []string{"reference model is a second implementation written from the property text"}}
}
