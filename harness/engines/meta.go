package engines

import "verif/lib/core"

func init() {
	core.Meta["C10"] = core.PropMeta{Level: "fault_enumeration", Assumptions: []string{
		"4 KiB page granularity for torn writes", "truthful commit-offset provider (component level)", "file truncation is not a generated fault"}}
	core.Meta["C09"] = core.PropMeta{Level: "exploration", Assumptions: []string{"list model written from the property text"}}
	core.Meta["C12"] = core.PropMeta{Level: "exploration", Assumptions: []string{"reference model is a second implementation written from the property text"}}
}
