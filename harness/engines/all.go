// Package engines links every engine into the vcheck binary.
package engines

import (
	_ "verif/engines/client"
	_ "verif/engines/coord"
	_ "verif/engines/coordpure"
	_ "verif/engines/kvmodel"
	_ "verif/engines/kvorder"
	_ "verif/engines/repl"
	_ "verif/engines/walmodel"
)
