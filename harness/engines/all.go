// Package engines links every engine into the vcheck binary.
package engines

import (
	_ "verif/engines/walmodel"
)
