package kvmodel

import (
	"fmt"
	"math/rand/v2"
	"strings"

	pb "google.golang.org/protobuf/proto"

	"github.com/oxia-db/oxia/proto"

	"verif/lib/core"
)

func init() {
	core.Register(&core.Part{
		Name: "C12.model", Prop: "C12",
		Cases: func(tier string) int { return tierN(tier, 150, 5000) },
		Run:   runC12,
		Rule: "seeded request sequences (40 quick / 80 thorough requests; 0..6 puts, 0..4 deletes, 0..2 delete ranges per request over 8..40 hierarchical keys so that one key occurs several times in a request; expected versions from {none,-1,current,stale,future}; live/closed/unknown sessions; indexes; sequence deltas; ranges covering 0..300 keys, empty and inverted) " +
			"against an RF=1 leader; every response field is compared with the reference model, and the full state (list, range-scan, point gets, raw DB dump incl. shadow and index keys) after every 5th (quick) / every (thorough) request and after a restart; non-trivial = >=1 conditional op that failed, >=1 that succeeded and >=1 delete range that removed keys; distinct = request trace",
		MinNontrivial:    func(tier string) int { return tierN(tier, 60, 2000) },
		RequiredCounters: []string{"requests", "puts", "puts_rejected", "deletes", "delete_ranges", "range_deleted_keys", "full_compares", "restarts"},
		CaseTimeoutS:     120,
	})
}

var spanPool = []string{"a", "b", "ab", "a.", "a0", "a-", "c", "a%2F"}

type keyUniverse struct {
	keys []string
}

func genUniverse(rng *rand.Rand, n int) *keyUniverse {
	set := map[string]bool{}
	u := &keyUniverse{}
	for len(u.keys) < n {
		depth := 1 + rng.IntN(3)
		var spans []string
		for i := 0; i < depth; i++ {
			spans = append(spans, spanPool[rng.IntN(len(spanPool))])
		}
		k := strings.Join(spans, "/")
		if rng.IntN(10) == 0 {
			k += fmt.Sprintf("%d", rng.IntN(100))
		}
		if !set[k] {
			set[k] = true
			u.keys = append(u.keys, k)
		}
	}
	return u
}

func (u *keyUniverse) pick(rng *rand.Rand) string { return u.keys[rng.IntN(len(u.keys))] }

type genOpts struct {
	sessions bool
	indexes  bool
	seq      bool
	bigRange bool
}

func (h *seqHarness) nextValue() []byte {
	h.valueCounter++
	return []byte(fmt.Sprintf("v%d", h.valueCounter))
}

func (h *seqHarness) genExpected(key string) *int64 {
	rec := h.M.Recs[key]
	switch h.rng.IntN(11) {
	case 10:
		return pb.Int64(-2 - h.rng.Int64N(3)) // matches nothing: only -1 means "must not exist"
	case 0, 1, 2, 3, 4:
		return nil
	case 5:
		return pb.Int64(-1)
	case 6, 7:
		if rec != nil {
			return pb.Int64(rec.VersionId)
		}
		return pb.Int64(-1)
	case 8:
		if rec != nil && rec.VersionId > 0 {
			return pb.Int64(rec.VersionId - 1 - h.rng.Int64N(rec.VersionId))
		}
		return pb.Int64(0)
	default:
		return pb.Int64(h.M.Version + 1 + h.rng.Int64N(5))
	}
}

var idxNames = []string{"ia", "ia0", "iab", "ib"}
var idxKeys = []string{"k", "k0", "ka", "m", "m.", "z"}

func (h *seqHarness) genPut(u *keyUniverse, o genOpts) *proto.PutRequest {
	p := &proto.PutRequest{Key: u.pick(h.rng), Value: h.nextValue()}
	p.ExpectedVersionId = h.genExpected(p.Key)
	if o.sessions && h.rng.IntN(4) == 0 {
		switch x := h.rng.IntN(10); {
		case x < 6 && len(h.liveSessions) > 0:
			p.SessionId = pb.Int64(h.liveSessions[h.rng.IntN(len(h.liveSessions))])
		case x < 8 && len(h.closedSessions) > 0:
			p.SessionId = pb.Int64(h.closedSessions[h.rng.IntN(len(h.closedSessions))])
		default:
			p.SessionId = pb.Int64(1_000_000 + h.rng.Int64N(10))
		}
	}
	if h.rng.IntN(5) == 0 {
		p.ClientIdentity = pb.String(fmt.Sprintf("client-%d", h.rng.IntN(3)))
	}
	if h.rng.IntN(6) == 0 {
		p.PartitionKey = pb.String("pk")
	}
	if o.indexes && h.rng.IntN(3) == 0 {
		for n := 1 + h.rng.IntN(2); n > 0; n-- {
			p.SecondaryIndexes = append(p.SecondaryIndexes, &proto.SecondaryIndex{
				IndexName: idxNames[h.rng.IntN(len(idxNames))], SecondaryKey: idxKeys[h.rng.IntN(len(idxKeys))]})
		}
	}
	if o.seq && h.rng.IntN(8) == 0 {
		p.Key = []string{"s", "s/q", "t"}[h.rng.IntN(3)]
		p.ExpectedVersionId = nil
		p.PartitionKey = pb.String("pk")
		n := 1
		if p.Key == "t" {
			n = 2
		}
		for i := 0; i < n; i++ {
			d := uint64(h.rng.IntN(4))
			if i == 0 {
				d++
			}
			p.SequenceKeyDelta = append(p.SequenceKeyDelta, d)
		}
	}
	return p
}

func (h *seqHarness) genRange(u *keyUniverse) *proto.DeleteRangeRequest {
	a, b := u.pick(h.rng), u.pick(h.rng)
	// both bounds with or both without '/': such a range cannot reach the internal key space
	for strings.Contains(a, "/") != strings.Contains(b, "/") {
		b = u.pick(h.rng)
	}
	switch h.rng.IntN(6) {
	case 0:
		b = a // empty
	case 1:
		// possibly inverted: leave as drawn
	default:
		if strings.Compare(a, b) > 0 && h.rng.IntN(3) > 0 {
			a, b = b, a
		}
	}
	return &proto.DeleteRangeRequest{StartInclusive: a, EndExclusive: b}
}

func (h *seqHarness) genRequest(u *keyUniverse, o genOpts) *proto.WriteRequest {
	req := &proto.WriteRequest{}
	for n := h.rng.IntN(7); n > 0; n-- {
		req.Puts = append(req.Puts, h.genPut(u, o))
	}
	if h.rng.IntN(2) == 0 {
		for n := h.rng.IntN(5); n > 0; n-- {
			k := u.pick(h.rng)
			req.Deletes = append(req.Deletes, &proto.DeleteRequest{Key: k, ExpectedVersionId: h.genExpected(k)})
		}
	}
	if h.rng.IntN(4) == 0 {
		for n := 1 + h.rng.IntN(2); n > 0; n-- {
			req.DeleteRanges = append(req.DeleteRanges, h.genRange(u))
		}
	}
	return req
}

// bulkLoad writes many keys under one prefix so that a later delete range crosses the 100-key threshold.
func (h *seqHarness) bulkLoad(prefix string, n int) bool {
	for i := 0; i < n; i += 50 {
		req := &proto.WriteRequest{}
		for j := i; j < i+50 && j < n; j++ {
			put := &proto.PutRequest{Key: fmt.Sprintf("%s%04d", prefix, j), Value: h.nextValue()}
			if j%3 != 0 {
				// most bulk records declare an index entry: a large delete range must clean those up too
				put.SecondaryIndexes = []*proto.SecondaryIndex{{IndexName: idxNames[j%len(idxNames)], SecondaryKey: idxKeys[j%len(idxKeys)]}}
			}
			req.Puts = append(req.Puts, put)
		}
		if _, _, ok := h.step(req); !ok {
			return false
		}
	}
	return true
}

func runC12(tier string, seed uint64, idx int) core.Result {
	r := core.NewR("C12.model", idx)
	rng := core.CaseSeed(seed, "C12.model", idx)
	h, err := newSeqHarness("C12", r, rng, true)
	if err != nil {
		r.Violate("C12/node-cannot-start", "a fresh RF=1 node cannot become leader: "+scrub(err.Error()), nil)
		return r.Done()
	}
	defer h.Close()
	u := genUniverse(rng, 8+rng.IntN(33))
	o := genOpts{sessions: true, indexes: true, seq: true}
	nReq := tierN(tier, 40, 80)
	every := tierN(tier, 5, 1)
	if rng.IntN(3) == 0 {
		// a block of keys for a large delete range (both sides of the engine's 100-key switch)
		n := []int{60, 99, 100, 101, 150, 300}[rng.IntN(6)]
		pfx := []string{"bulk", "bulk/"}[rng.IntN(2)]
		if !h.bulkLoad(pfx, n) {
			return r.Done()
		}
		u.keys = append(u.keys, pfx+"0000", fmt.Sprintf("%s%04d", pfx, n/2), pfx+"9999")
		r.Count("bulk_blocks", 1)
	}
	restartAt := -1
	if rng.IntN(2) == 0 {
		restartAt = rng.IntN(nReq)
	}
	condFail, condOK, rangeHit := false, false, false
	for i := 0; i < nReq && r.Violations() == 0; i++ {
		switch rng.IntN(12) {
		case 0:
			if len(h.liveSessions) < 3 {
				if !h.createSession() {
					return r.Done()
				}
				continue
			}
		case 1:
			if len(h.liveSessions) > 0 && rng.IntN(2) == 0 {
				if !h.closeSession(h.liveSessions[rng.IntN(len(h.liveSessions))]) {
					return r.Done()
				}
				continue
			}
		}
		req := h.genRequest(u, o)
		exp, _, ok := h.step(req)
		if !ok {
			break
		}
		for j, pe := range exp.Puts {
			if req.Puts[j].ExpectedVersionId != nil {
				if pe.Status == proto.Status_OK {
					condOK = true
				} else {
					condFail = true
				}
			}
		}
		if len(exp.RangeHit) > 0 {
			rangeHit = true
		}
		if i == restartAt {
			if err := h.L.Restart(); err != nil {
				h.viol("restart-error", scrub(err.Error()))
				break
			}
			h.trace = append(h.trace, "restart")
			r.Count("restarts", 1)
			if !h.fullCompare() {
				break
			}
		}
		if i%every == every-1 || i == nReq-1 {
			if !h.fullCompare() {
				break
			}
		}
	}
	if condFail && condOK && rangeHit {
		r.Nontrivial()
	}
	r.FP(strings.Join(h.trace, ";"))
	if idx < 2 {
		r.Sample(map[string]any{"keys": u.keys, "trace": h.tail(12)})
	}
	return r.Done()
}
