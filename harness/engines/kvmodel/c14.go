package kvmodel

import (
	"fmt"
	"os"
	"sort"
	"strings"
	"sync"
	"time"

	pb "google.golang.org/protobuf/proto"

	"github.com/oxia-db/oxia/common/vhook"
	"github.com/oxia-db/oxia/proto"
	"github.com/oxia-db/oxia/server"
	"github.com/oxia-db/oxia/server/kv"

	"verif/lib/core"
	"verif/lib/refmodel"
	"verif/lib/shard"
)

func init() {
	core.Register(&core.Part{
		Name: "C14.model", Prop: "C14",
		Cases: func(tier string) int { return tierN(tier, 80, 3000) },
		Run:   runC14Model,
		Rule: "seeded session-centred sequences (60 quick / 120 thorough steps) on an RF=1 leader over 4..10 keys, so that ownership moves often: up to 4 live sessions, ephemeral puts (also conditional), take-overs by another session and by plain puts, deletes, delete ranges, writes naming closed and never-created sessions, CloseSession, and leader restarts into a new term (sessions and their records must survive and stay usable); " +
			"after every step every response and the raw database (records with their owner, session keys, shadow keys: exactly one per owned record, none for anything else) are compared with the reference model; non-trivial = take-overs in >= 2 of the 3 directions, >= 1 dead-session write and >= 1 close that removed >= 1 record with >= 1 record of another owner left alone; distinct = trace",
		MinNontrivial:    func(tier string) int { return tierN(tier, 30, 1200) },
		RequiredCounters: []string{"requests", "sessions_created", "sessions_closed", "ephemerals_removed_by_close", "takeover_session_to_session", "takeover_session_to_plain", "takeover_plain_to_session", "dead_session_writes_rejected", "restarts", "dump_compares"},
		CaseTimeoutS:     120,
	})
	core.Register(&core.Part{
		Name: "C14.cleanup", Prop: "C14",
		Cases: func(tier string) int { return tierN(tier, 60, 1500) },
		Run:   runC14Cleanup,
		Rule: "session cleanup (CloseSession, and expiry of a 2 s session) against concurrent writers: the hook session.delete.listed (after the owned keys were listed, before the cleanup write) runs 1..4 writes of other clients on the session's keys: a plain put or another session's put on an owned key (take-over), a re-put or a new ephemeral put by the closing session itself, delete+put, a put on an unrelated key; " +
			"oracle: close is atomic, so responses and final state (records with owners, session and shadow keys) must equal the reference model for some position of the close inside the sequence of those writes (writes after it that name the closed session are refused); non-trivial = >= 1 interfering write touched a listed key; distinct = (interference kinds, close kind)",
		MinNontrivial:    func(tier string) int { return tierN(tier, 30, 700) },
		RequiredCounters: []string{"cleanups_with_interference", "interfering_writes", "positions_tried"},
		CaseTimeoutS:     120,
	})
	core.Register(&core.Part{
		Name: "C14.expiry", Prop: "C14", Race: true,
		Cases: func(tier string) int { return tierN(tier, 12, 200) },
		Run:   runC14Expiry,
		Rule: "3..6 sessions with the minimum timeout (2 s) and ephemeral records on an RF=1 leader, each with its own heartbeat schedule (none / regular for a while then silent / one late heartbeat), one leader restart at a seeded moment (timers are re-armed by the new leader); the session key and the records are polled every 10 ms; " +
			"oracle (the measured quantity is time itself): a session is never gone earlier than timeout after its last heartbeat was sent, nor earlier than timeout after the restart completed; whenever the session key is gone its records are gone in the same observation (and records of live sessions and plain records are still there); a write naming the expired session is refused; late expiry is reported, not judged; non-trivial = >= 1 session kept alive past 1.5x timeout by heartbeats and >= 1 expiry observed; distinct = schedule",
		MinNontrivial:    func(tier string) int { return tierN(tier, 2, 50) },
		RequiredCounters: []string{"sessions", "expiries_observed", "heartbeats", "polls"},
		CaseTimeoutS:     120,
	})
}

// ---------- C14.model ----------

func runC14Model(tier string, seed uint64, idx int) core.Result {
	r := core.NewR("C14.model", idx)
	rng := core.CaseSeed(seed, "C14.model", idx)
	h, err := newSeqHarness("C14", r, rng, true)
	if err != nil {
		r.Inconclusive(err.Error())
		return r.Done()
	}
	defer h.Close()
	nk := 4 + rng.IntN(7)
	var keys []string
	for i := 0; i < nk; i++ {
		keys = append(keys, []string{"e", "e/a b", "e/b", "f", "e/a/x", "g%2F", "e0+1", "h/1?x=#", "h/2", "é/ü"}[i])
	}
	steps := tierN(tier, 60, 120)
	owner := func(k string) *int64 {
		if rec := h.M.Recs[k]; rec != nil {
			return rec.Session
		}
		return nil
	}
	for i := 0; i < steps && r.Violations() == 0; i++ {
		switch p := rng.IntN(100); {
		case p < 10:
			if len(h.liveSessions) < 4 && !h.createSession() {
				return r.Done()
			}
		case p < 18:
			if len(h.liveSessions) > 0 {
				id := h.liveSessions[rng.IntN(len(h.liveSessions))]
				owned, others := 0, 0
				for _, rec := range h.M.Recs {
					if rec.Session != nil && *rec.Session == id {
						owned++
					} else {
						others++
					}
				}
				if !h.closeSession(id) {
					return r.Done()
				}
				if owned > 0 && others > 0 {
					r.Count("closes_with_bystanders", 1)
				}
			}
		case p < 22:
			if err := h.L.Restart(); err != nil {
				h.viol("restart-failed", scrub(err.Error()))
				return r.Done()
			}
			h.trace = append(h.trace, "restart")
			r.Count("restarts", 1)
		case p < 55:
			// ephemeral put by a live session
			if len(h.liveSessions) == 0 {
				continue
			}
			k := keys[rng.IntN(len(keys))]
			id := h.liveSessions[rng.IntN(len(h.liveSessions))]
			prev := owner(k)
			put := &proto.PutRequest{Key: k, Value: h.nextValue(), SessionId: pb.Int64(id), ClientIdentity: pb.String("c")}
			if rng.IntN(4) == 0 {
				put.ExpectedVersionId = h.genExpected(k)
			}
			exp, _, ok := h.step(&proto.WriteRequest{Puts: []*proto.PutRequest{put}})
			if !ok {
				return r.Done()
			}
			if exp.Puts[0].Status == proto.Status_OK {
				switch {
				case prev != nil && *prev != id:
					r.Count("takeover_session_to_session", 1)
				case prev == nil && h.M.Recs[k] != nil && h.M.Recs[k].ModCount > 0:
					r.Count("takeover_plain_to_session", 1)
				}
			}
		case p < 72:
			k := keys[rng.IntN(len(keys))]
			prev := owner(k)
			put := &proto.PutRequest{Key: k, Value: h.nextValue()}
			if rng.IntN(4) == 0 {
				put.ExpectedVersionId = h.genExpected(k)
			}
			exp, _, ok := h.step(&proto.WriteRequest{Puts: []*proto.PutRequest{put}})
			if !ok {
				return r.Done()
			}
			if exp.Puts[0].Status == proto.Status_OK && prev != nil {
				r.Count("takeover_session_to_plain", 1)
			}
		case p < 82:
			// a write naming a dead or unknown session
			var id int64
			if len(h.closedSessions) > 0 && rng.IntN(3) > 0 {
				id = h.closedSessions[rng.IntN(len(h.closedSessions))]
			} else {
				id = 5_000_000 + rng.Int64N(5)
			}
			k := keys[rng.IntN(len(keys))]
			exp, _, ok := h.step(&proto.WriteRequest{Puts: []*proto.PutRequest{{Key: k, Value: h.nextValue(), SessionId: pb.Int64(id), ClientIdentity: pb.String("c")}}})
			if !ok {
				return r.Done()
			}
			if exp.Puts[0].Status == proto.Status_SESSION_DOES_NOT_EXIST {
				r.Count("dead_session_writes_rejected", 1)
			}
		case p < 92:
			k := keys[rng.IntN(len(keys))]
			if _, _, ok := h.step(&proto.WriteRequest{Deletes: []*proto.DeleteRequest{{Key: k}}}); !ok {
				return r.Done()
			}
		default:
			a, b := keys[rng.IntN(len(keys))], keys[rng.IntN(len(keys))]
			if refmodel.SlashCmp(a, b) > 0 {
				a, b = b, a
			}
			if _, _, ok := h.step(&proto.WriteRequest{DeleteRanges: []*proto.DeleteRangeRequest{{StartInclusive: a, EndExclusive: b + "~"}}}); !ok {
				return r.Done()
			}
		}
		if !h.dumpCompare() {
			return r.Done()
		}
		r.Count("dump_compares", 1)
	}
	takeovers := 0
	for _, c := range []string{"takeover_session_to_session", "takeover_session_to_plain", "takeover_plain_to_session"} {
		if r.Get(c) > 0 {
			takeovers++
		}
	}
	if takeovers >= 2 && r.Get("dead_session_writes_rejected") > 0 && r.Get("closes_with_bystanders") > 0 {
		r.Nontrivial()
	}
	r.FP(strings.Join(h.trace, ";"))
	if idx < 2 {
		r.Sample(map[string]any{"keys": keys, "trace_head": h.tail(12)})
	}
	return r.Done()
}

// ---------- C14.cleanup ----------

// userState renders what clients and the session bookkeeping can see: records with value and owner, session keys,
// shadow keys.
func userState(k kv.KV) (map[string]string, error) {
	d, err := shard.Dump(k)
	if err != nil {
		return nil, err
	}
	res := map[string]string{}
	for _, e := range d {
		switch {
		case strings.HasPrefix(e.Key, "__oxia/session/"):
			res[e.Key] = "present"
		case strings.HasPrefix(e.Key, "__oxia/"):
			continue
		default:
			se := &proto.StorageEntry{}
			if err := se.UnmarshalVT(e.Raw); err != nil {
				res[e.Key] = "undecodable"
				continue
			}
			o := "plain"
			if se.SessionId != nil {
				o = fmt.Sprintf("session %d", *se.SessionId)
			}
			res[e.Key] = fmt.Sprintf("%s (%s)", se.Value, o)
		}
	}
	return res, nil
}

func modelState(m *refmodel.Model) map[string]string {
	res := map[string]string{}
	for id := range m.Sessions {
		res[server.SessionKey(server.SessionId(id))] = "present"
	}
	for k, rec := range m.Recs {
		o := "plain"
		if rec.Session != nil {
			o = fmt.Sprintf("session %d", *rec.Session)
			res[server.ShadowKey(server.SessionId(*rec.Session), k)] = "present"
		}
		res[k] = fmt.Sprintf("%s (%s)", rec.Value, o)
	}
	return res
}

func diffState(got, want map[string]string) string {
	var ks []string
	seen := map[string]bool{}
	for k := range got {
		ks, seen[k] = append(ks, k), true
	}
	for k := range want {
		if !seen[k] {
			ks = append(ks, k)
		}
	}
	sort.Strings(ks)
	var out []string
	for _, k := range ks {
		g, okg := got[k]
		w, okw := want[k]
		switch {
		case okg && !okw:
			out = append(out, fmt.Sprintf("%q is %s, should be absent", k, g))
		case !okg && okw:
			out = append(out, fmt.Sprintf("%q is absent, should be %s", k, w))
		case g != w:
			out = append(out, fmt.Sprintf("%q is %s, should be %s", k, g, w))
		}
	}
	return strings.Join(out, "; ")
}

type interference struct {
	kind string
	req  *proto.WriteRequest
	resp *proto.WriteResponse
	err  error
}

func runC14Cleanup(tier string, seed uint64, idx int) core.Result {
	r := core.NewR("C14.cleanup", idx)
	rng := core.CaseSeed(seed, "C14.cleanup", idx)
	vhook.Clear()
	defer vhook.Clear()
	h, err := newSeqHarness("C14", r, rng, true)
	if err != nil {
		r.Inconclusive(err.Error())
		return r.Done()
	}
	defer h.Close()
	byExpiry := rng.IntN(4) == 0
	// session A (the one that ends) and session B (a bystander that also interferes)
	var a int64
	if byExpiry {
		resp, err := h.L.LC.CreateSession(&proto.CreateSessionRequest{Shard: h.L.Shard, SessionTimeoutMs: 2000, ClientIdentity: "a"})
		if err != nil {
			r.Inconclusive(err.Error())
			return r.Done()
		}
		a = resp.SessionId
		h.M.Sessions[a] = true
	} else {
		if !h.createSession() {
			return r.Done()
		}
		a = h.liveSessions[0]
	}
	if !h.createSession() {
		return r.Done()
	}
	b := h.liveSessions[len(h.liveSessions)-1]
	put := func(key string, sess *int64) bool {
		p := &proto.PutRequest{Key: key, Value: h.nextValue(), SessionId: sess}
		if sess != nil {
			p.ClientIdentity = pb.String("c")
		}
		_, _, ok := h.step(&proto.WriteRequest{Puts: []*proto.PutRequest{p}})
		return ok
	}
	nA := 1 + rng.IntN(4)
	if idx%5 == 4 {
		// the session owns nothing when its cleanup lists its keys; its first records arrive during the cleanup
		nA = 0
		r.Count("cleanups_of_a_session_owning_nothing_at_the_listing", 1)
	}
	var aKeys []string
	for i := 0; i < nA; i++ {
		k := fmt.Sprintf("a/%d", i)
		if i%2 == 1 {
			k = []string{"a/with space", "a/pl+us", "a/per%cent"}[rng.IntN(3)] + fmt.Sprint(i)
		}
		aKeys = append(aKeys, k)
		if !put(k, &a) {
			return r.Done()
		}
	}
	if !put("b/0", &b) || !put("p/0", nil) {
		return r.Done()
	}
	// the interfering writes, run at the hook
	n := 1 + rng.IntN(4)
	var plan []*interference
	touched := false
	for i := 0; i < n; i++ {
		k := "a/0"
		kind := rng.IntN(7)
		if len(aKeys) > 0 {
			k = aKeys[rng.IntN(len(aKeys))]
		} else if kind != 6 {
			kind = 3
		}
		var it *interference
		switch kind {
		case 0:
			it = &interference{kind: "plain-put-on-owned-key", req: &proto.WriteRequest{Puts: []*proto.PutRequest{{Key: k, Value: h.nextValue()}}}}
			touched = true
		case 1:
			it = &interference{kind: "other-session-put-on-owned-key", req: &proto.WriteRequest{Puts: []*proto.PutRequest{{Key: k, Value: h.nextValue(), SessionId: pb.Int64(b), ClientIdentity: pb.String("c")}}}}
			touched = true
		case 2:
			it = &interference{kind: "same-session-reput", req: &proto.WriteRequest{Puts: []*proto.PutRequest{{Key: k, Value: h.nextValue(), SessionId: pb.Int64(a), ClientIdentity: pb.String("c")}}}}
			touched = true
		case 3:
			it = &interference{kind: "same-session-new-key", req: &proto.WriteRequest{Puts: []*proto.PutRequest{{Key: fmt.Sprintf("a/new%d", i), Value: h.nextValue(), SessionId: pb.Int64(a), ClientIdentity: pb.String("c")}}}}
			touched = true
		case 4:
			it = &interference{kind: "delete-then-plain-put", req: &proto.WriteRequest{Deletes: []*proto.DeleteRequest{{Key: k}}, Puts: []*proto.PutRequest{{Key: k, Value: h.nextValue()}}}}
			touched = true
		case 5:
			it = &interference{kind: "delete-owned-key", req: &proto.WriteRequest{Deletes: []*proto.DeleteRequest{{Key: k}}}}
			touched = true
		default:
			it = &interference{kind: "unrelated-put", req: &proto.WriteRequest{Puts: []*proto.PutRequest{{Key: "p/1", Value: h.nextValue()}}}}
		}
		plan = append(plan, it)
	}
	var once sync.Once
	fired := false
	vhook.Set("session.delete.listed", func(_ string, args ...any) {
		if len(args) < 2 || args[1] != any(a) {
			return
		}
		once.Do(func() {
			fired = true
			for _, it := range plan {
				it.resp, it.err = h.L.Write(pbClone(it.req))
			}
		})
	})
	before := h.M.Clone()
	if byExpiry {
		// no heartbeats: the session expires after 2 s; wait for its key to go
		deadline := time.Now().Add(20 * time.Second)
		for {
			st, err := userState(h.L.KVF.KV(0))
			if err == nil && st[server.SessionKey(server.SessionId(a))] == "" && fired {
				break
			}
			if time.Now().After(deadline) {
				r.Inconclusive("the session did not expire within 20 s")
				return r.Done()
			}
			time.Sleep(20 * time.Millisecond)
		}
		// the cleanup may take more rounds and the removal from the manager follows it; logical evidence that it is
		// over: the manager no longer knows the session
		for h.L.LC.KeepAlive(a) == nil {
			if time.Now().After(deadline) {
				r.Inconclusive("the expired session was not forgotten within 20 s")
				return r.Done()
			}
			time.Sleep(5 * time.Millisecond)
		}
	} else {
		if _, err := h.L.LC.CloseSession(&proto.CloseSessionRequest{Shard: h.L.Shard, SessionId: a}); err != nil {
			h.viol("close-session-error", scrub(err.Error()))
			return r.Done()
		}
	}
	vhook.Clear()
	if !fired {
		r.Inconclusive("hook session.delete.listed was not reached")
		return r.Done()
	}
	r.Count("cleanups_with_interference", 1)
	r.Count("interfering_writes", int64(len(plan)))
	for _, it := range plan {
		if it.err != nil {
			h.viol("cleanup/interfering-write-error", it.kind+": "+scrub(it.err.Error()))
			return r.Done()
		}
	}
	got, err := userState(h.L.KVF.KV(0))
	if err != nil {
		r.Inconclusive(err.Error())
		return r.Done()
	}
	// try every position of the (atomic) close among the interfering writes
	var kinds []string
	for _, it := range plan {
		kinds = append(kinds, it.kind)
	}
	matched := -1
	var firstDiff string
	for pos := 0; pos <= len(plan) && matched < 0; pos++ {
		r.Count("positions_tried", 1)
		m := before.Clone()
		ok := true
		var why string
		apply := func(it *interference) {
			exp, _ := m.Apply(pbClone(it.req), 0, func(i int) (int64, bool) {
				if i < len(it.resp.Puts) && it.resp.Puts[i].Status == proto.Status_OK && it.resp.Puts[i].Version != nil {
					return it.resp.Puts[i].Version.VersionId, true
				}
				return 0, false
			})
			for i, pe := range exp.Puts {
				if it.resp.Puts[i].Status != pe.Status {
					ok = false
					why = fmt.Sprintf("%s answered %v, expected %v", it.kind, it.resp.Puts[i].Status, pe.Status)
				}
			}
			for i, de := range exp.Deletes {
				if it.resp.Deletes[i].Status != de.Status {
					ok = false
					why = fmt.Sprintf("%s: delete answered %v, expected %v", it.kind, it.resp.Deletes[i].Status, de.Status)
				}
			}
		}
		for i := 0; i < pos; i++ {
			apply(plan[i])
		}
		m.CloseSession(a)
		for i := pos; i < len(plan); i++ {
			apply(plan[i])
		}
		if ok {
			if d := diffState(got, modelState(m)); d != "" {
				ok, why = false, d
			}
		}
		if ok {
			matched = pos
		} else if firstDiff == "" || pos == len(plan) {
			firstDiff = fmt.Sprintf("close after all %d writes: %s", len(plan), why)
			if pos != len(plan) {
				firstDiff = fmt.Sprintf("close before write %d: %s", pos, why)
			}
		}
	}
	closeKind := "close"
	if byExpiry {
		closeKind = "expiry"
	}
	if matched < 0 {
		sort.Strings(kinds)
		uniq := kinds[:0]
		for i, k := range kinds {
			if i == 0 || k != kinds[i-1] {
				uniq = append(uniq, k)
			}
		}
		// name the writes that break it: find a minimal explanation by kind
		h.r.Violate("C14/cleanup-not-atomic/"+classifyCleanup(plan, got, a), fmt.Sprintf("session %d ended by %s while [%s] ran between the listing of its keys and the cleanup write; no position of an atomic close explains the answers and the final state; e.g. %s", a, closeKind, strings.Join(uniq, ", "), firstDiff),
			map[string]any{"interference": kinds, "final_state": got, "trace": h.trace})
	}
	if touched {
		r.Nontrivial()
	}
	r.FP(closeKind, strings.Join(kinds, ","))
	if idx < 3 {
		r.Sample(map[string]any{"ended_by": closeKind, "interference": kinds, "matched_position": matched})
	}
	return r.Done()
}

// classifyCleanup names what went wrong in the final state (a stable, specific signature).
func classifyCleanup(plan []*interference, got map[string]string, a int64) string {
	var tags []string
	add := func(t string) {
		for _, x := range tags {
			if x == t {
				return
			}
		}
		tags = append(tags, t)
	}
	ownedByA := fmt.Sprintf("(session %d)", a)
	for _, it := range plan {
		for i, p := range it.req.Puts {
			if it.resp == nil || i >= len(it.resp.Puts) || it.resp.Puts[i].Status != proto.Status_OK {
				continue
			}
			v, present := got[p.Key]
			switch {
			case p.SessionId != nil && *p.SessionId == a && present && strings.HasSuffix(v, ownedByA):
				add("record-of-the-ended-session-survives")
			case (p.SessionId == nil || *p.SessionId != a) && !present:
				add("record-taken-over-by-another-writer-was-deleted")
			}
		}
	}
	if len(tags) == 0 {
		return "other"
	}
	sort.Strings(tags)
	return strings.Join(tags, "+")
}

// ---------- C14.expiry ----------

type beat struct{ sent, acked time.Time }

type sessPlan struct {
	id        int64
	key       string
	beats     []time.Duration // offsets (from creation) at which a heartbeat is sent
	done      []beat          // creation, acknowledged heartbeats and leader restarts: each (re)arms the timer somewhere in [sent, acked]
	created   time.Time
	timeout   time.Duration
	goneAt    time.Time
	gone      bool
	keptAlive bool
}

// mayHaveExpired tells whether a full timeout without any (re)arming can have passed before `obs`.
func (sp *sessPlan) mayHaveExpired(obs time.Time, timeout time.Duration) bool {
	for i := 0; i+1 < len(sp.done); i++ {
		if sp.done[i+1].acked.Sub(sp.done[i].sent) >= timeout {
			return true
		}
	}
	return obs.Sub(sp.done[len(sp.done)-1].sent) >= timeout
}

func runC14Expiry(tier string, seed uint64, idx int) core.Result {
	r := core.NewR("C14.expiry", idx)
	rng := core.CaseSeed(seed, "C14.expiry", idx)
	dir, err := os.MkdirTemp("", "c14e-")
	if err != nil {
		r.Inconclusive(err.Error())
		return r.Done()
	}
	defer os.RemoveAll(dir)
	l, err := shard.NewLeader(dir, 0, true)
	if err != nil {
		r.Inconclusive(err.Error())
		return r.Done()
	}
	defer l.Close()
	// most sessions use the minimum timeout; the older ones (created first) may use a longer one, so that sessions
	// re-armed by a new leader must each get their own
	n := 3 + rng.IntN(4)
	timeoutOf := func(i int) time.Duration {
		if i < 2 && rng.IntN(2) == 0 {
			return 4 * time.Second
		}
		return 2 * time.Second
	}
	var mu sync.Mutex
	var plans []*sessPlan
	write := func(req *proto.WriteRequest) (*proto.WriteResponse, error) { return l.Write(req) }
	if _, err := write(&proto.WriteRequest{Puts: []*proto.PutRequest{{Key: "plain", Value: []byte("p")}}}); err != nil {
		r.Inconclusive(err.Error())
		return r.Done()
	}
	for i := 0; i < n; i++ {
		t0 := time.Now()
		timeout := timeoutOf(i)
		resp, err := l.LC.CreateSession(&proto.CreateSessionRequest{Shard: 0, SessionTimeoutMs: uint32(timeout.Milliseconds()), ClientIdentity: "c"})
		if err != nil {
			r.Violate("C14/create-session-error", scrub(err.Error()), nil)
			return r.Done()
		}
		sp := &sessPlan{id: resp.SessionId, key: fmt.Sprintf("eph/%d", i), created: time.Now(), timeout: timeout}
		sp.done = []beat{{sent: t0, acked: sp.created}}
		switch rng.IntN(3) {
		case 0: // silent
		case 1: // regular for a while
			for t := 600 * time.Millisecond; t < time.Duration(2500+rng.IntN(1500))*time.Millisecond; t += time.Duration(400+rng.IntN(600)) * time.Millisecond {
				sp.beats = append(sp.beats, t)
			}
		default: // one heartbeat shortly before the deadline
			sp.beats = []time.Duration{time.Duration(1200+rng.IntN(600)) * time.Millisecond}
		}
		w, err := write(&proto.WriteRequest{Puts: []*proto.PutRequest{{Key: sp.key, Value: []byte("e"), SessionId: pb.Int64(sp.id), ClientIdentity: pb.String("c")}}})
		if err != nil || w.Puts[0].Status != proto.Status_OK {
			r.Inconclusive("ephemeral put failed")
			return r.Done()
		}
		plans = append(plans, sp)
		r.Count("sessions", 1)
	}
	restartAt := time.Duration(-1)
	if rng.IntN(2) == 0 {
		restartAt = time.Duration(500+rng.IntN(2500)) * time.Millisecond
	}
	start := time.Now()
	var restartDone time.Time
	restarted := false
	var lcMu sync.RWMutex // guards l.LC across the restart
	stop := make(chan struct{})
	var wg sync.WaitGroup
	// heartbeats
	for _, sp := range plans {
		wg.Add(1)
		go func(sp *sessPlan) {
			defer wg.Done()
			for _, off := range sp.beats {
				select {
				case <-stop:
					return
				case <-time.After(time.Until(sp.created.Add(off))):
				}
				lcMu.RLock()
				sent := time.Now()
				err := l.LC.KeepAlive(sp.id)
				lcMu.RUnlock()
				if err == nil {
					mu.Lock()
					sp.done = append(sp.done, beat{sent: sent, acked: time.Now()})
					if sent.Sub(sp.created) > sp.timeout*3/2 {
						sp.keptAlive = true
					}
					mu.Unlock()
					r.Count("heartbeats", 1)
				}
			}
		}(sp)
	}
	// observer
	deadline := start.Add(11 * time.Second)
	for time.Now().Before(deadline) && r.Violations() == 0 {
		if restartAt >= 0 && !restarted && time.Since(start) >= restartAt {
			lcMu.Lock()
			rs := time.Now()
			err := l.Restart()
			restartDone = time.Now()
			lcMu.Unlock()
			restarted = true
			mu.Lock()
			for _, sp := range plans {
				if !sp.gone {
					sp.done = append(sp.done, beat{sent: rs, acked: restartDone})
				}
			}
			mu.Unlock()
			if err != nil {
				r.Violate("C14/restart-failed", scrub(err.Error()), nil)
				break
			}
			r.Count("leader_restarts", 1)
		}
		lcMu.RLock()
		before := time.Now()
		st, err := userState(l.KVF.KV(0))
		lcMu.RUnlock()
		if err != nil {
			time.Sleep(10 * time.Millisecond)
			continue
		}
		r.Count("polls", 1)
		if st["plain"] == "" {
			r.Violate("C14/expiry-touched-a-plain-record", "the plain record disappeared", nil)
		}
		allGone := true
		for _, sp := range plans {
			sk := server.SessionKey(server.SessionId(sp.id))
			_, sessPresent := st[sk]
			_, recPresent := st[sp.key]
			_, shadowPresent := st[server.ShadowKey(server.SessionId(sp.id), sp.key)]
			if sp.gone {
				if sessPresent || recPresent {
					r.Violate("C14/expired-session-came-back", fmt.Sprintf("session %d or its record is present again", sp.id), nil)
				}
				continue
			}
			allGone = false
			if !sessPresent {
				sp.gone, sp.goneAt = true, before
				r.Count("expiries_observed", 1)
				// the measured quantity is time: the observation was taken after `now`; could a full timeout without
				// (re)arming have passed by then?
				now := time.Now()
				mu.Lock()
				timeout := sp.timeout
				possible := sp.mayHaveExpired(now, timeout)
				last := sp.done[len(sp.done)-1]
				nb := len(sp.done)
				mu.Unlock()
				if !possible {
					what := "the-last-heartbeat"
					if nb == 1 {
						what = "creation"
					} else if restarted && last.acked.Equal(restartDone) {
						what = "the-new-leader-took-over"
					}
					r.Violate("C14/expired-before-a-full-timeout-after-"+what, fmt.Sprintf("session %d is gone %v after the timer was last (re)armed (sent %v ago), timeout %v, %d (re)armings without a full-timeout gap", sp.id, now.Sub(last.acked), now.Sub(last.sent), timeout, nb), nil)
				}
				if now.Sub(last.sent)-timeout > time.Second {
					r.Count("late_expiries_over_1s", 1)
				}
				if recPresent || shadowPresent {
					r.Violate("C14/session-gone-but-its-record-remains", fmt.Sprintf("session %d is gone; record present=%v shadow present=%v in the same observation", sp.id, recPresent, shadowPresent), nil)
				}
				// a write naming the expired session must be refused
				lcMu.RLock()
				w, err := l.Write(&proto.WriteRequest{Puts: []*proto.PutRequest{{Key: sp.key + "/late", Value: []byte("x"), SessionId: pb.Int64(sp.id), ClientIdentity: pb.String("c")}}})
				lcMu.RUnlock()
				if err == nil && w.Puts[0].Status == proto.Status_OK {
					r.Violate("C14/write-naming-an-expired-session-accepted", fmt.Sprintf("session %d", sp.id), nil)
				}
			} else if !recPresent {
				r.Violate("C14/record-of-a-live-session-disappeared", fmt.Sprintf("session %d is present but %s is gone", sp.id, sp.key), nil)
			}
		}
		if allGone {
			break
		}
		time.Sleep(10 * time.Millisecond)
	}
	close(stop)
	wg.Wait()
	kept := 0
	var sched []string
	for _, sp := range plans {
		if sp.keptAlive {
			kept++
		}
		sched = append(sched, fmt.Sprint(sp.beats))
		if !sp.gone {
			r.Count("sessions_not_expired_within_the_run", 1)
		}
	}
	if kept >= 1 && r.Get("expiries_observed") >= 1 {
		r.Nontrivial()
	}
	r.FP(strings.Join(sched, ";"), restartAt)
	if idx < 2 {
		r.Sample(map[string]any{"sessions": n, "heartbeat_offsets": sched, "restart_at": restartAt.String(), "expiries": r.Get("expiries_observed")})
	}
	return r.Done()
}
