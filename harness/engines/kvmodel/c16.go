package kvmodel

import (
	"context"
	"fmt"
	"strings"
	"sync"
	"sync/atomic"
	"time"

	pb "google.golang.org/protobuf/proto"

	"github.com/oxia-db/oxia/common/vhook"
	"github.com/oxia-db/oxia/proto"
	"github.com/oxia-db/oxia/server/kv"

	"verif/lib/core"
	"verif/lib/refmodel"
)

func init() {
	core.Register(&core.Part{
		Name: "C16.arith", Prop: "C16",
		Cases: func(tier string) int { return tierN(tier, 200, 5000) },
		Run:   runC16Arith,
		Rule: "30 requests per case on sequence prefixes with 1..3 levels (deltas incl. 0 on later levels, several sequential puts per request, well-formed plain puts under the prefix, deletes of the current maximum, values near 2^64); " +
			"the returned key must equal prefix + (suffixes of the highest existing key + deltas) computed with math/big by the reference model, must not exist before and must be greater (independent slash order) than every existing key of the prefix; state is compared with the model at the end and after a restart; " +
			"non-trivial = >= 5 sequential puts over >= 2 prefixes; distinct = request trace",
		MinNontrivial:    func(tier string) int { return tierN(tier, 100, 2500) },
		RequiredCounters: []string{"seq_puts", "seq_freshness_checks", "full_compares"},
		CaseTimeoutS:     120,
	})
	core.Register(&core.Part{
		Name: "C16.subscribe", Prop: "C16", Race: true,
		Cases: func(tier string) int { return tierN(tier, 120, 5000) },
		Run:   runC16Subscribe,
		Rule: "a writer issues 10..40 sequential puts on one prefix (some refused by design: expected version set) while 1..3 GetSequenceUpdates subscribers are opened at seeded moments; hooks seq.waiter.added / seq.waiter.initial-read hold a subscriber between registration, its initial read and the delivery of that read until the writer has completed k more puts; " +
			"oracle at quiescence (all writes returned, logical point): the last value drained from every subscriber equals the latest generated key; no subscriber ever receives a value that is not a generated key; non-trivial = a subscriber was held in the window while >= 1 put completed; distinct = (schedule of holds, puts)",
		MinNontrivial:    func(tier string) int { return tierN(tier, 40, 1500) },
		RequiredCounters: []string{"subscribers", "holds_in_window", "updates_received"},
		CaseTimeoutS:     120,
	})
}

type seqPrefix struct {
	key    string
	levels int
}

func runC16Arith(tier string, seed uint64, idx int) core.Result {
	r := core.NewR("C16.arith", idx)
	rng := core.CaseSeed(seed, "C16.arith", idx)
	h, err := newSeqHarness("C16", r, rng, false)
	if err != nil {
		r.Violate("C16/node-cannot-start", "a fresh RF=1 node cannot become leader: "+scrub(err.Error()), nil)
		return r.Done()
	}
	defer h.Close()
	all := []seqPrefix{{"q", 1}, {"q/r", 1}, {"w", 2}, {"x/y/z", 3}, {"v", 1}}
	rng.Shuffle(len(all), func(i, j int) { all[i], all[j] = all[j], all[i] })
	prefixes := all[:2+rng.IntN(3)]
	usedPrefixes := map[string]bool{}
	nearMax := rng.IntN(4) == 0
	for i := 0; i < 30 && r.Violations() == 0; i++ {
		req := &proto.WriteRequest{}
		for n := 1 + rng.IntN(3); n > 0; n-- {
			p := prefixes[rng.IntN(len(prefixes))]
			switch c := rng.IntN(12); {
			case c < 8:
				put := &proto.PutRequest{Key: p.key, Value: h.nextValue(), PartitionKey: pb.String("pk")}
				for l := 0; l < p.levels; l++ {
					d := uint64(rng.IntN(4))
					if rng.IntN(6) == 0 {
						d = uint64(rng.IntN(1000))
					}
					if l == 0 && d == 0 {
						d = 1
					}
					put.SequenceKeyDelta = append(put.SequenceKeyDelta, d)
				}
				if rng.IntN(15) == 0 {
					put.ExpectedVersionId = pb.Int64(-1)
				}
				if nearMax && rng.IntN(3) == 0 {
					put.SequenceKeyDelta[0] = 1 << 62
				}
				req.Puts = append(req.Puts, put)
				usedPrefixes[p.key] = true
			case c < 10:
				// a well-formed key written directly under the prefix
				k := p.key
				for l := 0; l < p.levels; l++ {
					v := uint64(rng.IntN(50))
					if nearMax && l == 0 && rng.IntN(2) == 0 {
						v = ^uint64(0) - uint64(rng.IntN(5))
					}
					k = fmt.Sprintf("%s-%020d", k, v)
				}
				req.Puts = append(req.Puts, &proto.PutRequest{Key: k, Value: h.nextValue()})
			default:
				// delete the current maximum of the prefix
				var maxKey string
				for k := range h.M.Recs {
					if strings.HasPrefix(k, p.key+"-") && (maxKey == "" || refmodel.SlashCmp(k, maxKey) > 0) {
						maxKey = k
					}
				}
				if maxKey != "" {
					req.Deletes = append(req.Deletes, &proto.DeleteRequest{Key: maxKey})
				}
			}
		}
		before := h.M.Clone()
		reqCopy := req.CloneVT()
		// the model is consulted first for overflow: the property's arithmetic is exact
		_, info := before.Clone().Apply(reqCopy.CloneVT(), 0, nil)
		exp, resp, ok := h.step(req)
		if !ok {
			if info.SeqOverflow || atMaxInvolved(h.M, reqCopy) || atMaxInvolved(before, reqCopy) {
				// re-label: the mismatch is the known arithmetic limit, not a new kind of disagreement
				sig, what := "C16/seq-key/overflow-wraps", "suffix + delta exceeds 2^64-1: the generated key wraps around and is not greater than the existing keys"
				if !info.SeqOverflow {
					sig, what = "C16/seq-key/at-max", "the prefix holds a key whose first level is 2^64-1: the highest key is not found (strictly-lower lookup) and the generated key is not fresh"
				}
				r2 := core.NewR("C16.arith", idx)
				r2.Violate(sig, what+"; "+h.lastShape, map[string]any{"trace": h.trace})
				r2.FP(strings.Join(h.trace, ";"))
				return r2.Done()
			}
			break
		}
		// freshness of every generated key against the state before the request (+ earlier puts of the same request)
		cur := before
		for pi, pe := range exp.Puts {
			if pe.SeqKey && pe.Status == proto.Status_OK {
				got := *resp.Puts[pi].Key
				prefix := reqCopy.Puts[pi].Key
				atMax := func(k string) string {
					if strings.Contains(k, "-18446744073709551615") {
						return "-at-max"
					}
					return ""
				}
				if cur.Recs[got] != nil {
					h.viol("seq-overwrite"+atMax(got), fmt.Sprintf("sequence put returned key %q which already existed", got))
				}
				for k := range cur.Recs {
					if strings.HasPrefix(k, prefix+"-") && refmodel.SlashCmp(got, k) <= 0 {
						h.viol("seq-not-greater"+atMax(k), fmt.Sprintf("generated key %q is not greater than existing key %q of the prefix", got, k))
						break
					}
				}
				r.Count("seq_freshness_checks", 1)
			}
			// advance cur by this single put so that later puts of the request see it
			single := &proto.WriteRequest{Puts: []*proto.PutRequest{reqCopy.Puts[pi].CloneVT()}}
			cur.Apply(single, 0, nil)
		}
	}
	if r.Violations() == 0 {
		if h.fullCompare() {
			if err := h.L.Restart(); err != nil {
				h.viol("restart-error", scrub(err.Error()))
			} else {
				h.fullCompare()
			}
		}
	}
	if r.Get("seq_puts") >= 5 && len(usedPrefixes) >= 2 {
		r.Nontrivial()
	}
	r.FP(strings.Join(h.trace, ";"))
	if idx < 2 {
		r.Sample(map[string]any{"prefixes": prefixes, "trace": h.tail(10)})
	}
	return r.Done()
}

// ---- subscribers ----

func runC16Subscribe(tier string, seed uint64, idx int) core.Result {
	r := core.NewR("C16.subscribe", idx)
	rng := core.CaseSeed(seed, "C16.subscribe", idx)
	h, err := newSeqHarness("C16", r, rng, false)
	if err != nil {
		r.Violate("C16/node-cannot-start", "a fresh RF=1 node cannot become leader: "+scrub(err.Error()), nil)
		return r.Done()
	}
	defer h.Close()
	defer vhook.Clear()
	const prefix = "sub"
	nPuts := 10 + rng.IntN(31)
	nSubs := 1 + rng.IntN(3)

	var completed atomic.Int64 // number of sequential puts whose response has been received
	var latest atomic.Value    // latest generated key (string)
	latest.Store("")
	generated := sync.Map{}

	// plan: which subscriber opens after how many puts, where it is held and for how many further puts
	type plan struct {
		openAfter  int64
		holdAt     string // "", seq.waiter.added, seq.waiter.initial-read
		holdPuts   int64
		closeAfter int64 // -1: stays open until the end
	}
	if rng.IntN(2) == 0 {
		nSubs += 2 // churn: some subscribers leave while others stay and new ones arrive
	}
	plans := make([]plan, nSubs)
	for i := range plans {
		plans[i] = plan{openAfter: int64(rng.IntN(nPuts)), holdPuts: int64(1 + rng.IntN(3)), closeAfter: -1}
		plans[i].holdAt = []string{"", "seq.waiter.added", "seq.waiter.initial-read", "seq.waiter.initial-read"}[rng.IntN(4)]
		if nSubs > 3 && i%2 == 1 {
			plans[i].closeAfter = plans[i].openAfter + int64(1+rng.IntN(5))
			plans[i].holdAt = ""
		}
	}
	// the hook holds exactly the goroutine of the subscriber that is currently opening (subscribers open one at a time)
	var holdPoint atomic.Value
	holdPoint.Store("")
	var holdUntil atomic.Int64
	var held atomic.Int64
	writerDone := make(chan struct{})
	hold := func(point string, _ ...any) {
		if holdPoint.Load().(string) != point {
			return
		}
		holdPoint.Store("")
		start := completed.Load()
		target := holdUntil.Load()
		for completed.Load() < target {
			select {
			case <-writerDone:
				if completed.Load() > start {
					held.Add(1)
				}
				return
			default:
				time.Sleep(100 * time.Microsecond)
			}
		}
		if completed.Load() > start {
			held.Add(1)
		}
	}
	vhook.Set("seq.waiter.added", hold)
	vhook.Set("seq.waiter.initial-read", hold)
	// writer side: in half of the cases one more subscriber registers (waiter added, initial value read) while the
	// LAST sequential put sits between building its batch and committing it: whatever that put generates is not in
	// the database yet, and nothing comes after it that could repair a missed announcement
	var lateSub atomic.Pointer[kv.SequenceWaiter]
	lateWanted := rng.IntN(2) == 0
	var lastPutAt atomic.Int64
	lastPutAt.Store(-1)
	if lateWanted {
		var once sync.Once
		vhook.Set("db.apply.before", func(string, ...any) {
			if lp := lastPutAt.Load(); lp < 0 || completed.Load() != lp {
				return
			}
			once.Do(func() {
				// from another goroutine: when the apply runs inside the writer's own call (the WAL completed the
				// sync synchronously) the controller is still locked and the registration can only finish afterwards
				done := make(chan struct{})
				go func() {
					defer close(done)
					w, err := h.L.LC.GetSequenceUpdates(context.Background(), &proto.GetSequenceUpdatesRequest{Shard: 0, Key: prefix})
					if err == nil {
						lateSub.Store(&w)
					}
				}()
				select {
				case <-done:
					r.Count("subscribers_registered_inside_the_last_apply", 1)
				case <-time.After(5 * time.Millisecond):
					r.Count("late_subscribers_registered_after_the_apply", 1)
				}
			})
		})
	}

	type sub struct {
		w    kv.SequenceWaiter
		last string
		n    int
		bad  string
	}
	subs := make([]*sub, nSubs)
	var subMu sync.Mutex
	var subWG sync.WaitGroup
	var openMu sync.Mutex
	for i := range plans {
		subWG.Add(1)
		go func(i int) {
			defer subWG.Done()
			p := plans[i]
			for completed.Load() < p.openAfter {
				select {
				case <-writerDone:
				default:
					time.Sleep(100 * time.Microsecond)
					continue
				}
				break
			}
			openMu.Lock()
			holdUntil.Store(completed.Load() + p.holdPuts)
			holdPoint.Store(p.holdAt)
			w, err := h.L.LC.GetSequenceUpdates(context.Background(), &proto.GetSequenceUpdatesRequest{Shard: 0, Key: prefix})
			holdPoint.Store("")
			openMu.Unlock()
			if err != nil {
				r.Violate("C16/subscribe-error", scrub(err.Error()), nil)
				return
			}
			sb := &sub{w: w}
			r.Count("subscribers", 1)
			if p.closeAfter >= 0 {
				// this subscriber leaves again after a few more puts
				for completed.Load() < p.closeAfter {
					select {
					case <-writerDone:
					default:
						time.Sleep(100 * time.Microsecond)
						continue
					}
					break
				}
				_ = w.Close()
				r.Count("subscribers_closed_midway", 1)
				return
			}
			subMu.Lock()
			subs[i] = sb
			subMu.Unlock()
		}(i)
	}

	// writer
	var trace []string
	for i := 0; i < nPuts; i++ {
		put := &proto.PutRequest{Key: prefix, Value: []byte(fmt.Sprint(i)), PartitionKey: pb.String("pk"), SequenceKeyDelta: []uint64{uint64(1 + rng.IntN(3))}}
		refusedByDesign := rng.IntN(6) == 0
		if i == nPuts-1 {
			refusedByDesign = false
			lastPutAt.Store(completed.Load())
		}
		if refusedByDesign {
			put.ExpectedVersionId = pb.Int64(-1) // sequential puts with an expected version are answered UNEXPECTED_VERSION_ID
		}
		resp, err := h.L.Write(&proto.WriteRequest{Puts: []*proto.PutRequest{put}})
		if err != nil {
			r.Violate("C16/write-error", scrub(err.Error()), nil)
			break
		}
		if resp.Puts[0].Status == proto.Status_OK && resp.Puts[0].Key != nil {
			latest.Store(*resp.Puts[0].Key)
			generated.Store(*resp.Puts[0].Key, true)
			trace = append(trace, "ok")
		} else {
			trace = append(trace, resp.Puts[0].Status.String())
		}
		completed.Add(1)
		if rng.IntN(3) == 0 {
			time.Sleep(time.Duration(rng.IntN(300)) * time.Microsecond)
		}
	}
	close(writerDone)
	subWG.Wait()
	r.Count("holds_in_window", held.Load())

	// quiescence: every write has returned and every subscriber is registered. Drain what each subscriber has.
	want := latest.Load().(string)
	if lateWanted {
		for i := 0; i < 2000 && lateSub.Load() == nil; i++ {
			time.Sleep(time.Millisecond)
		}
	}
	if w := lateSub.Load(); w != nil {
		subs = append(subs, &sub{w: *w})
		plans = append(plans, plan{holdAt: "registered-inside-the-last-apply"})
	}
	for i, s := range subs {
		if s == nil {
			continue
		}
		for {
			select {
			case v, ok := <-s.w.Ch():
				if !ok {
					goto drained
				}
				s.n++
				s.last = v
				if _, isGen := generated.Load(v); !isGen {
					s.bad = v
				}
				continue
			default:
			}
			break
		}
	drained:
		r.Count("updates_received", int64(s.n))
		p := plans[i]
		ctx := "hold=" + p.holdAt
		if p.holdAt == "" {
			ctx = "hold=none"
		}
		wit := map[string]any{"plan": fmt.Sprintf("%+v", p), "puts": trace, "latest": want, "last_received": s.last, "received": s.n}
		if s.bad != "" || (s.n > 0 && s.last == "" && want != "") {
			r.Violate("C16/subscriber-got-non-key/"+ctx, fmt.Sprintf("subscriber received %q which is not a generated key (latest is %q)", s.bad, want), wit)
		} else if want != "" && s.last != want {
			r.Violate("C16/subscriber-stale-at-quiescence/"+ctx, fmt.Sprintf("all %d writes returned; subscriber %d last received %q (of %d updates) but the latest generated key is %q", nPuts, i, s.last, s.n, want), wit)
		}
		_ = s.w.Close()
	}
	if held.Load() > 0 {
		r.Nontrivial()
	}
	var ps []string
	for _, p := range plans {
		ps = append(ps, fmt.Sprintf("%d:%s:%d", p.openAfter, p.holdAt, p.holdPuts))
	}
	r.FP(nPuts, strings.Join(ps, ","), strings.Join(trace, ""))
	if idx < 2 {
		r.Sample(map[string]any{"puts": nPuts, "subscribers": ps, "statuses": trace, "latest": want})
	}
	return r.Done()
}

// atMaxInvolved reports whether a sequence prefix addressed by the request already holds a key whose
// first level is 2^64-1 (no greater key can exist: the same arithmetic limit as the overflow).
func atMaxInvolved(m *refmodel.Model, req *proto.WriteRequest) bool {
	for _, p := range req.Puts {
		if len(p.SequenceKeyDelta) == 0 {
			continue
		}
		for k := range m.Recs {
			if strings.HasPrefix(k, p.Key+"-18446744073709551615") {
				return true
			}
		}
	}
	return false
}
