package kvmodel

import (
	"context"
	"fmt"
	"strings"

	pb "google.golang.org/protobuf/proto"

	"github.com/oxia-db/oxia/proto"
	"github.com/oxia-db/oxia/server/kv"

	"verif/lib/core"
)

// C16, subscribers and requests that generate keys under several prefixes at once: every prefix has its own
// subscribers and each of them must end up with the latest key of ITS prefix, whatever else the request contained.

func init() {
	core.Register(&core.Part{
		Name: "C16.batches", Prop: "C16",
		Cases: func(tier string) int { return tierN(tier, 40, 1500) },
		Run:   runC16Batches,
		Rule: "RF=1 leader, 2..4 sequence prefixes (one a textual prefix of another: sq, sq-x), one subscriber per prefix opened before the writes and one more opened midway; 5..20 requests each carrying 1..5 sequential puts on randomly chosen prefixes (several prefixes per request, several puts per prefix, mixed with plain puts and refused puts); " +
			"oracle at quiescence (all writes returned): every value a subscriber received is a key generated under its own prefix, values arrive in increasing key order, and the last one is the latest key generated under that prefix; a subscriber of a prefix under which nothing was generated received nothing; " +
			"non-trivial = some request generated keys under >= 2 prefixes; distinct = (prefixes, request shapes)",
		MinNontrivial:    func(tier string) int { return tierN(tier, 20, 700) },
		RequiredCounters: []string{"updates_received", "requests_generating_under_several_prefixes", "subscribers"},
		CaseTimeoutS:     60,
	})
}

func runC16Batches(tier string, seed uint64, idx int) core.Result {
	r := core.NewR("C16.batches", idx)
	rng := core.CaseSeed(seed, "C16.batches", idx)
	h, err := newSeqHarness("C16", r, rng, false)
	if err != nil {
		r.Violate("C16/node-cannot-start", "a fresh RF=1 node cannot become leader: "+scrub(err.Error()), nil)
		return r.Done()
	}
	defer h.Close()
	all := []string{"sq", "sq-x", "orders", "t/a"}
	np := 2 + rng.IntN(3)
	prefixes := all[:np]
	type sub struct {
		prefix string
		w      kv.SequenceWaiter
		got    []string
		from   int // number of keys generated under the prefix when it was opened
	}
	var subs []*sub
	open := func(p string, from int) bool {
		w, err := h.L.LC.GetSequenceUpdates(context.Background(), &proto.GetSequenceUpdatesRequest{Shard: 0, Key: p})
		if err != nil {
			r.Violate("C16/subscribe-error", scrub(err.Error()), nil)
			return false
		}
		subs = append(subs, &sub{prefix: p, w: w, from: from})
		r.Count("subscribers", 1)
		return true
	}
	for _, p := range prefixes {
		if !open(p, 0) {
			return r.Done()
		}
	}
	generated := map[string][]string{}
	nReq := 5 + rng.IntN(16)
	midway := rng.IntN(nReq)
	var shapes []string
	multi := false
	for i := 0; i < nReq && r.Violations() == 0; i++ {
		if i == midway {
			p := prefixes[rng.IntN(np)]
			if !open(p, len(generated[p])) {
				return r.Done()
			}
		}
		req := &proto.WriteRequest{}
		var shape []string
		seen := map[string]bool{}
		for k := 1 + rng.IntN(5); k > 0; k-- {
			switch rng.IntN(6) {
			case 0:
				req.Puts = append(req.Puts, &proto.PutRequest{Key: fmt.Sprintf("plain/%d", rng.IntN(4)), Value: []byte("p")})
				shape = append(shape, "p")
			case 1:
				// refused by design: a sequential put with an expected version
				p := prefixes[rng.IntN(np)]
				req.Puts = append(req.Puts, &proto.PutRequest{Key: p, Value: []byte("r"), PartitionKey: pb.String("pk"), SequenceKeyDelta: []uint64{1}, ExpectedVersionId: pb.Int64(-1)})
				shape = append(shape, "r"+p)
			default:
				p := prefixes[rng.IntN(np)]
				req.Puts = append(req.Puts, &proto.PutRequest{Key: p, Value: []byte("s"), PartitionKey: pb.String("pk"), SequenceKeyDelta: []uint64{uint64(1 + rng.IntN(3))}})
				shape = append(shape, "s"+p)
				seen[p] = true
			}
		}
		// (the server works on the request it is given: the prefixes are noted before)
		prefixOf := make([]string, len(req.Puts))
		for j, p := range req.Puts {
			if len(p.SequenceKeyDelta) > 0 {
				prefixOf[j] = p.Key
			}
		}
		resp, err := h.L.Write(req)
		if err != nil {
			r.Violate("C16/write-error", scrub(err.Error()), nil)
			break
		}
		okPrefixes := map[string]bool{}
		for j, pr := range resp.Puts {
			if prefixOf[j] != "" && pr.Status == proto.Status_OK && pr.Key != nil {
				generated[prefixOf[j]] = append(generated[prefixOf[j]], *pr.Key)
				okPrefixes[prefixOf[j]] = true
			}
		}
		if len(okPrefixes) >= 2 {
			multi = true
			r.Count("requests_generating_under_several_prefixes", 1)
		}
		var answers []string
		for _, pr := range resp.Puts {
			if pr.Key != nil {
				answers = append(answers, pr.Status.String()+":"+*pr.Key)
			} else {
				answers = append(answers, pr.Status.String())
			}
		}
		shapes = append(shapes, strings.Join(shape, "+")+" => "+strings.Join(answers, ","))
	}
	// quiescence: every write has returned; drain
	for _, s := range subs {
		for {
			select {
			case v, ok := <-s.w.Ch():
				if ok {
					s.got = append(s.got, v)
					continue
				}
			default:
			}
			break
		}
		_ = s.w.Close()
		r.Count("updates_received", int64(len(s.got)))
		gen := generated[s.prefix]
		wit := map[string]any{"prefix": s.prefix, "generated_under_the_prefix": gen, "received": s.got, "requests": shapes, "opened_after_keys": s.from}
		isGen := map[string]int{}
		for i, k := range gen {
			isGen[k] = i
		}
		prev := -1
		for _, v := range s.got {
			pos, ok := isGen[v]
			if !ok {
				r.Violate("C16/subscriber-got-non-key/several-prefixes-per-request", fmt.Sprintf("subscriber of %q received %q, which was not generated under that prefix", s.prefix, v), wit)
				break
			}
			if pos < prev {
				r.Violate("C16/subscriber-updates-go-backwards/several-prefixes-per-request", fmt.Sprintf("subscriber of %q received %q after a later key", s.prefix, v), wit)
				break
			}
			prev = pos
		}
		if len(gen) > s.from || (len(gen) > 0 && len(s.got) > 0) {
			// something was generated after it was opened (or it was told something): its last value must be the latest
			last := ""
			if len(s.got) > 0 {
				last = s.got[len(s.got)-1]
			}
			if want := gen[len(gen)-1]; last != want && len(gen) > s.from {
				r.Violate("C16/subscriber-stale-at-quiescence/several-prefixes-per-request", fmt.Sprintf("all writes returned; the subscriber of %q last received %q (of %d updates), the latest key generated under that prefix is %q", s.prefix, last, len(s.got), want), wit)
			}
		}
	}
	if multi {
		r.Nontrivial()
	}
	r.FP(np, strings.Join(shapes, ";"))
	if idx < 2 {
		r.Sample(map[string]any{"prefixes": prefixes, "requests": shapes, "generated": generated})
	}
	return r.Done()
}
