// Package kvmodel runs an RF=1 leader (real WAL, Pebble, session and index callbacks) against the
// sequential reference model: C12, C13, C15, C16, C17 and the sequential part of C14.
package kvmodel

import (
	"bytes"
	"fmt"
	"math/rand/v2"
	"net/url"
	"os"
	"sort"
	"strings"

	"github.com/oxia-db/oxia/proto"
	"github.com/oxia-db/oxia/server"

	"verif/lib/core"
	"verif/lib/refmodel"
	"verif/lib/shard"
)

func tierN(tier string, quick, thorough int) int {
	if tier == "thorough" {
		return thorough
	}
	return quick
}

type seqHarness struct {
	idxSlash bool // C15: secondary keys and probes contain '/'
	prop     string
	r        *core.R
	rng      *rand.Rand
	dir      string
	L        *shard.Leader
	M        *refmodel.Model

	liveSessions   []int64
	closedSessions []int64
	maxVersion     int64
	valueCounter   int
	trace          []string
	lastShape      string
}

func newSeqHarness(prop string, r *core.R, rng *rand.Rand, notifications bool) (*seqHarness, error) {
	dir, err := os.MkdirTemp("", "kvm-")
	if err != nil {
		return nil, err
	}
	l, err := shard.NewLeader(dir, 0, notifications)
	if err != nil {
		os.RemoveAll(dir)
		return nil, err
	}
	return &seqHarness{prop: prop, r: r, rng: rng, dir: dir, L: l, M: refmodel.New(), maxVersion: -1}, nil
}

func (h *seqHarness) Close() {
	h.L.Close()
	os.RemoveAll(h.dir)
}

func (h *seqHarness) viol(clause, detail string) {
	h.r.Violate(h.prop+"/"+clause, detail+"; last ops: "+strings.Join(h.tail(6), " | "), map[string]any{"trace": h.trace})
}

func (h *seqHarness) tail(n int) []string {
	if len(h.trace) <= n {
		return h.trace
	}
	return h.trace[len(h.trace)-n:]
}

func fmtReq(req *proto.WriteRequest) string {
	var sb strings.Builder
	for _, p := range req.Puts {
		fmt.Fprintf(&sb, "put(%q", p.Key)
		if p.ExpectedVersionId != nil {
			fmt.Fprintf(&sb, ",ev=%d", *p.ExpectedVersionId)
		}
		if p.SessionId != nil {
			fmt.Fprintf(&sb, ",s=%d", *p.SessionId)
		}
		if len(p.SequenceKeyDelta) > 0 {
			fmt.Fprintf(&sb, ",seq=%v", p.SequenceKeyDelta)
		}
		if p.PartitionKey != nil {
			fmt.Fprintf(&sb, ",pk=%q", *p.PartitionKey)
		}
		for _, si := range p.SecondaryIndexes {
			fmt.Fprintf(&sb, ",ix=%s:%q", si.IndexName, si.SecondaryKey)
		}
		sb.WriteString(") ")
	}
	for _, d := range req.Deletes {
		fmt.Fprintf(&sb, "del(%q", d.Key)
		if d.ExpectedVersionId != nil {
			fmt.Fprintf(&sb, ",ev=%d", *d.ExpectedVersionId)
		}
		sb.WriteString(") ")
	}
	for _, d := range req.DeleteRanges {
		fmt.Fprintf(&sb, "delrange[%q,%q) ", d.StartInclusive, d.EndExclusive)
	}
	return strings.TrimSpace(sb.String())
}

func (h *seqHarness) createSession() bool {
	resp, err := h.L.LC.CreateSession(&proto.CreateSessionRequest{Shard: h.L.Shard, SessionTimeoutMs: 300_000, ClientIdentity: "c"})
	if err != nil {
		h.viol("create-session-error", err.Error())
		return false
	}
	h.trace = append(h.trace, fmt.Sprintf("create-session -> %d", resp.SessionId))
	h.M.Sessions[resp.SessionId] = true
	h.liveSessions = append(h.liveSessions, resp.SessionId)
	h.r.Count("sessions_created", 1)
	return true
}

func (h *seqHarness) closeSession(id int64) bool {
	_, err := h.L.LC.CloseSession(&proto.CloseSessionRequest{Shard: h.L.Shard, SessionId: id})
	h.trace = append(h.trace, fmt.Sprintf("close-session %d -> %v", id, err))
	if err != nil {
		h.viol("close-session-error", err.Error())
		return false
	}
	removed := h.M.CloseSession(id)
	for i, s := range h.liveSessions {
		if s == id {
			h.liveSessions = append(h.liveSessions[:i], h.liveSessions[i+1:]...)
			break
		}
	}
	h.closedSessions = append(h.closedSessions, id)
	h.r.Count("sessions_closed", 1)
	h.r.Count("ephemerals_removed_by_close", int64(len(removed)))
	return true
}

// step applies one request to the real leader and to the model and compares the response.
func (h *seqHarness) step(req *proto.WriteRequest) (exp refmodel.Exp, resp *proto.WriteResponse, ok bool) {
	reqCopy := pbClone(req) // the server rewrites sequence keys in place
	h.lastShape = fmtReq(req)
	resp, err := h.L.Write(req)
	h.trace = append(h.trace, h.lastShape)
	if err != nil {
		h.viol("write-error", "WriteBlock returned an error for a valid request: "+scrub(err.Error()))
		return exp, nil, false
	}
	h.r.Count("requests", 1)
	var ts uint64
	for _, p := range resp.Puts {
		if p.Status == proto.Status_OK && p.Version != nil {
			ts = p.Version.ModifiedTimestamp
			break
		}
	}
	before := h.M.Clone()
	exp, _ = h.M.Apply(reqCopy, ts, func(i int) (int64, bool) {
		if i < len(resp.Puts) && resp.Puts[i].Status == proto.Status_OK && resp.Puts[i].Version != nil {
			return resp.Puts[i].Version.VersionId, true
		}
		return 0, false
	})
	if len(resp.Puts) != len(reqCopy.Puts) || len(resp.Deletes) != len(reqCopy.Deletes) || len(resp.DeleteRanges) != len(reqCopy.DeleteRanges) {
		h.viol("response-shape", fmt.Sprintf("response has %d/%d/%d results for %d/%d/%d operations", len(resp.Puts), len(resp.Deletes), len(resp.DeleteRanges),
			len(reqCopy.Puts), len(reqCopy.Deletes), len(reqCopy.DeleteRanges)))
		return exp, resp, false
	}
	for i, pe := range exp.Puts {
		got := resp.Puts[i]
		p := reqCopy.Puts[i]
		h.r.Count("puts", 1)
		if pe.Any {
			if got.Status == proto.Status_OK {
				h.viol("malformed-put-accepted", fmt.Sprintf("put %d (%s) reported OK", i, fmtReq(&proto.WriteRequest{Puts: []*proto.PutRequest{p}})))
				return exp, resp, false
			}
			continue
		}
		if got.Status != pe.Status {
			h.viol("put-status:"+condShape(p, before), fmt.Sprintf("put %d of [%s]: status %v, model says %v", i, h.lastShape, got.Status, pe.Status))
			return exp, resp, false
		}
		if pe.Status != proto.Status_OK {
			h.r.Count("puts_rejected", 1)
			continue
		}
		v := got.Version
		if v == nil {
			h.viol("put-no-version", fmt.Sprintf("put %d OK without version", i))
			return exp, resp, false
		}
		if v.VersionId <= h.maxVersion {
			h.viol("version-not-increasing", fmt.Sprintf("put %d got version id %d, an earlier put already got %d", i, v.VersionId, h.maxVersion))
			return exp, resp, false
		}
		h.maxVersion = v.VersionId
		if v.ModificationsCount != pe.Mod {
			h.viol("mod-count", fmt.Sprintf("put %d of [%s]: modifications count %d, model says %d", i, h.lastShape, v.ModificationsCount, pe.Mod))
			return exp, resp, false
		}
		if pe.Mod > 0 && v.CreatedTimestamp != pe.Created {
			h.viol("created-timestamp", fmt.Sprintf("put %d: created timestamp changed on update (%d -> %d)", i, pe.Created, v.CreatedTimestamp))
			return exp, resp, false
		}
		if pe.Mod == 0 && v.CreatedTimestamp != v.ModifiedTimestamp {
			h.viol("created-timestamp", fmt.Sprintf("put %d: new record with created %d != modified %d", i, v.CreatedTimestamp, v.ModifiedTimestamp))
			return exp, resp, false
		}
		if !eqOptI64(v.SessionId, p.SessionId) || !eqOptStr(v.ClientIdentity, p.ClientIdentity) {
			h.viol("put-version-fields", fmt.Sprintf("put %d: session/client identity in the response differ from the request", i))
			return exp, resp, false
		}
		if pe.SeqKey {
			if got.Key == nil || *got.Key != pe.Key {
				gk := "<nil>"
				if got.Key != nil {
					gk = *got.Key
				}
				h.viol("seq-key", fmt.Sprintf("sequence put %d of [%s]: returned key %q, model says %q", i, h.lastShape, gk, pe.Key))
				return exp, resp, false
			}
			h.r.Count("seq_puts", 1)
		} else if got.Key != nil && *got.Key != p.Key {
			h.viol("put-key", fmt.Sprintf("put %d: returned key %q for a plain put of %q", i, *got.Key, p.Key))
			return exp, resp, false
		}
	}
	for i, de := range exp.Deletes {
		h.r.Count("deletes", 1)
		if resp.Deletes[i].Status != de.Status {
			h.viol("delete-status", fmt.Sprintf("delete %d of [%s]: status %v, model says %v", i, h.lastShape, resp.Deletes[i].Status, de.Status))
			return exp, resp, false
		}
	}
	for i := range reqCopy.DeleteRanges {
		h.r.Count("delete_ranges", 1)
		if resp.DeleteRanges[i].Status != proto.Status_OK {
			h.viol("delete-range-status", fmt.Sprintf("delete range %d: status %v", i, resp.DeleteRanges[i].Status))
			return exp, resp, false
		}
	}
	h.r.Count("range_deleted_keys", int64(len(exp.RangeHit)))
	return exp, resp, true
}

func condShape(p *proto.PutRequest, before *refmodel.Model) string {
	ex := before.Recs[p.Key] != nil
	switch {
	case len(p.SequenceKeyDelta) > 0:
		return "seq"
	case p.ExpectedVersionId == nil:
		return fmt.Sprintf("uncond,exists=%v", ex)
	case *p.ExpectedVersionId == -1:
		return fmt.Sprintf("ev=-1,exists=%v", ex)
	default:
		return fmt.Sprintf("ev=N,exists=%v", ex)
	}
}

func eqOptI64(a, b *int64) bool {
	if a == nil || b == nil {
		return a == b
	}
	return *a == *b
}

func eqOptStr(a, b *string) bool {
	if a == nil || b == nil {
		return a == b
	}
	return *a == *b
}

func scrub(s string) string {
	var b strings.Builder
	inNum := false
	for _, c := range s {
		if c >= '0' && c <= '9' {
			if !inNum {
				b.WriteByte('N')
				inNum = true
			}
			continue
		}
		inNum = false
		b.WriteRune(c)
	}
	res := b.String()
	if len(res) > 160 {
		res = res[:160]
	}
	return res
}

func pbClone(req *proto.WriteRequest) *proto.WriteRequest {
	return req.CloneVT()
}

// checkRecord compares a GetResponse with the model's record.
func (h *seqHarness) checkRecord(what, key string, got *proto.GetResponse, withValue bool) bool {
	rec := h.M.Recs[key]
	if rec == nil {
		if got.Status != proto.Status_KEY_NOT_FOUND {
			h.viol(what+"-phantom", fmt.Sprintf("%s(%q) returned status %v but the key does not exist", what, key, got.Status))
			return false
		}
		return true
	}
	if got.Status != proto.Status_OK {
		h.viol(what+"-miss", fmt.Sprintf("%s(%q) returned %v for an existing key", what, key, got.Status))
		return false
	}
	v := got.Version
	if v == nil || v.VersionId != rec.VersionId || v.ModificationsCount != rec.ModCount || v.CreatedTimestamp != rec.Created ||
		!eqOptI64(v.SessionId, rec.Session) || !eqOptStr(v.ClientIdentity, rec.ClientIdentity) {
		h.viol(what+"-version", fmt.Sprintf("%s(%q): version %+v, model says id=%d mod=%d created=%d", what, key, v, rec.VersionId, rec.ModCount, rec.Created))
		return false
	}
	if withValue && !bytes.Equal(got.Value, rec.Value) {
		h.viol(what+"-value", fmt.Sprintf("%s(%q): value %q, model says %q", what, key, got.Value, rec.Value))
		return false
	}
	return true
}

// fullCompare reads the whole user-visible state back through the leader API and compares it with the model.
// User keys start with a lower-case letter, so ["a","{") covers the keys without '/' and ["a/","{/") those with.
func (h *seqHarness) fullCompare() bool {
	want := h.M.SortedKeys()
	var got []string
	var gotRecs []*proto.GetResponse
	for _, rg := range [][2]string{{"a", "{"}, {"a/", "{/"}} {
		l, err := h.L.List(rg[0], rg[1], nil)
		if err != nil {
			h.viol("list-error", scrub(err.Error()))
			return false
		}
		got = append(got, l...)
		rs, err := h.L.RangeScan(rg[0], rg[1], nil)
		if err != nil {
			h.viol("range-scan-error", scrub(err.Error()))
			return false
		}
		gotRecs = append(gotRecs, rs...)
	}
	if strings.Join(got, "\x00") != strings.Join(want, "\x00") {
		h.viol("list-mismatch", fmt.Sprintf("list returned %q, model has %q", got, want))
		return false
	}
	if len(gotRecs) != len(want) {
		h.viol("range-scan-mismatch", fmt.Sprintf("range-scan returned %d records, model has %d", len(gotRecs), len(want)))
		return false
	}
	for i, k := range want {
		if gotRecs[i].Key == nil || *gotRecs[i].Key != k {
			h.viol("range-scan-mismatch", fmt.Sprintf("range-scan record %d has key %v, want %q", i, gotRecs[i].Key, k))
			return false
		}
		if !h.checkRecord("range-scan", k, gotRecs[i], true) {
			return false
		}
	}
	// point gets, also for a few absent keys
	var gets []*proto.GetRequest
	probe := append([]string{}, want...)
	probe = append(probe, "zz-absent", "a/zz-absent")
	for _, k := range probe {
		gets = append(gets, &proto.GetRequest{Key: k, IncludeValue: true})
	}
	res, err := h.L.Read(gets...)
	if err != nil || len(res) != len(gets) {
		h.viol("read-error", fmt.Sprintf("read of %d keys returned %d results, err=%v", len(gets), len(res), err))
		return false
	}
	for i, k := range probe {
		if !h.checkRecord("get", k, res[i], true) {
			return false
		}
	}
	h.r.Count("full_compares", 1)
	h.r.Count("records_compared", int64(len(want)))
	return h.dumpCompare()
}

// dumpCompare checks the raw database: user keys, shadow keys and index keys must be exactly the model's derived views.
func (h *seqHarness) dumpCompare() bool {
	k := h.L.KVF.KV(h.L.Shard)
	dump, err := shard.Dump(k)
	if err != nil {
		h.viol("dump-error", scrub(err.Error()))
		return false
	}
	wantUser := map[string]bool{}
	wantShadow := map[string]bool{}
	wantIdx := map[string]bool{}
	wantSession := map[string]bool{}
	for key, rec := range h.M.Recs {
		wantUser[key] = true
		if rec.Session != nil {
			wantShadow[server.ShadowKey(server.SessionId(*rec.Session), key)] = true
		}
		seen := map[string]bool{}
		for _, ix := range rec.Indexes {
			ik := fmt.Sprintf("__oxia/idx/%s/%s\x01%s", ix.Name, ix.Key, url.PathEscape(key))
			if !seen[ik] {
				seen[ik] = true
				wantIdx[ik] = true
			}
		}
	}
	for s := range h.M.Sessions {
		wantSession[server.SessionKey(server.SessionId(s))] = true
	}
	gotUser, gotShadow, gotIdx, gotSession := map[string]bool{}, map[string]bool{}, map[string]bool{}, map[string]bool{}
	for _, e := range dump {
		switch {
		case strings.HasPrefix(e.Key, "__oxia/idx/"):
			gotIdx[e.Key] = true
		case strings.HasPrefix(e.Key, "__oxia/session/"):
			if strings.Count(e.Key, "/") == 2 {
				gotSession[e.Key] = true
			} else {
				gotShadow[e.Key] = true
			}
		case strings.HasPrefix(e.Key, "__oxia/"):
		default:
			gotUser[e.Key] = true
		}
	}
	for _, c := range []struct {
		name      string
		got, want map[string]bool
	}{{"user-keys", gotUser, wantUser}, {"shadow-keys", gotShadow, wantShadow}, {"index-entries", gotIdx, wantIdx}, {"session-keys", gotSession, wantSession}} {
		if d := setDiff(c.got, c.want); d != "" {
			h.viol("db-"+c.name, fmt.Sprintf("database %s differ from the model: %s", c.name, d))
			return false
		}
	}
	h.r.Count("index_entries_compared", int64(len(wantIdx)))
	h.r.Count("shadow_keys_compared", int64(len(wantShadow)))
	return true
}

func setDiff(got, want map[string]bool) string {
	var extra, missing []string
	for k := range got {
		if !want[k] {
			extra = append(extra, k)
		}
	}
	for k := range want {
		if !got[k] {
			missing = append(missing, k)
		}
	}
	if len(extra) == 0 && len(missing) == 0 {
		return ""
	}
	sort.Strings(extra)
	sort.Strings(missing)
	return fmt.Sprintf("unexpected %q, missing %q", extra, missing)
}
