package kvmodel

import (
	"context"
	"fmt"
	"math/rand/v2"
	"os"
	"path/filepath"
	"strings"
	"time"

	"google.golang.org/grpc/codes"
	"google.golang.org/grpc/status"
	pb "google.golang.org/protobuf/proto"

	"github.com/oxia-db/oxia/common/concurrent"
	time2 "github.com/oxia-db/oxia/common/time"
	"github.com/oxia-db/oxia/proto"
	"github.com/oxia-db/oxia/server"
	"github.com/oxia-db/oxia/server/kv"

	"verif/lib/core"
	"verif/lib/shard"
)

func init() {
	core.Register(&core.Part{
		Name: "C13.hostile", Prop: "C13",
		Cases: func(tier string) int { return tierN(tier, 60, 4000) },
		Run:   runC13,
		Rule: "protobuf-level WriteRequests (deliberately not the client library): each request uses one hostile feature from a fixed table (sequence puts without partition key / zero delta / fewer deltas / overflow / after malformed suffixes; keys empty, binary, huge, under every __oxia/ internal prefix; unknown and negative sessions; index names/keys with '/', \\x01, empty; delete ranges over internal prefixes) mixed with ordinary traffic on an RF=1 leader; " +
			"oracle: WriteBlock returns a per-operation status (no error, no panic); after the sequence the node restarts and becomes leader again in a higher term, a fresh replica can apply the whole log, and the notification stream is readable; non-trivial = >= 5 distinct hostile features exercised; distinct = feature sequence",
		MinNontrivial:    func(tier string) int { return tierN(tier, 30, 2000) },
		RequiredCounters: []string{"hostile_requests", "restarts_ok_or_checked", "replica_folds"},
		CaseTimeoutS:     120,
	})
}

type hostile struct {
	tag string
	req *proto.WriteRequest
}

func bigValue(n int) []byte { return []byte(strings.Repeat("x", n)) }

var internalKeys = map[string]string{
	"commit-offset":   "__oxia/commit-offset",
	"term":            "__oxia/term",
	"term-options":    "__oxia/term-options",
	"last-version-id": "__oxia/last-version-id",
	"session":         "__oxia/session/0000000000000005",
	"session-shadow":  "__oxia/session/0000000000000005/a",
	"idx":             "__oxia/idx/ia/k\x01a",
	"notifications":   "__oxia/notifications/0000000000000001",
}

func genHostile(rng *rand.Rand, thorough bool) hostile {
	put := func(p *proto.PutRequest) *proto.WriteRequest {
		return &proto.WriteRequest{Puts: []*proto.PutRequest{p}}
	}
	seq := func(key string, pk *string, deltas ...uint64) *proto.PutRequest {
		return &proto.PutRequest{Key: key, Value: []byte("s"), PartitionKey: pk, SequenceKeyDelta: deltas}
	}
	pk := pb.String("pk")
	names := []string{"commit-offset", "term", "term-options", "last-version-id", "session", "session-shadow", "idx", "notifications"}
	switch c := rng.IntN(34); c {
	case 0:
		return hostile{"seq:no-partition-key", put(seq("sq", nil, 1))}
	case 1:
		return hostile{"seq:zero-first-delta", put(seq("sq", pk, 0))}
	case 2:
		// create a two-level sequence, then ask with one delta
		return hostile{"seq:fewer-deltas", &proto.WriteRequest{Puts: []*proto.PutRequest{seq("sq2", pk, 1, 1), seq("sq2", pk, 1)}}}
	case 3:
		if rng.IntN(2) == 0 {
			// highest key under the prefix ends in a non-number
			return hostile{"seq:non-numeric-suffix", &proto.WriteRequest{Puts: []*proto.PutRequest{
				{Key: []string{"sq3-", "sq3-x", "sq3-0x10"}[rng.IntN(3)], Value: []byte("j")}, seq("sq3", pk, 1)}}}
		}
		// junk that reads as additional (empty) levels
		return hostile{"seq:extra-levels-junk", &proto.WriteRequest{Puts: []*proto.PutRequest{
			{Key: []string{"sq6--", "sq6-00000000000000000001-"}[rng.IntN(2)], Value: []byte("j")}, seq("sq6", pk, 1)}}}
	case 30:
		// a numeric suffix that does not fit 64 bits, written by a client under the prefix
		return hostile{"seq:suffix-out-of-range", &proto.WriteRequest{Puts: []*proto.PutRequest{
			{Key: []string{"sq7-100000000000000000000", "sq7-0000000000000000000000018446744073709551616", "sq7-18446744073709551614999"}[rng.IntN(3)], Value: []byte("j")}, seq("sq7", pk, 1)}}}
	case 4:
		return hostile{"seq:overflow-delta", &proto.WriteRequest{Puts: []*proto.PutRequest{seq("sq4", pk, ^uint64(0)), seq("sq4", pk, 5)}}}
	case 5:
		p := seq("sq", pk, 1)
		p.ExpectedVersionId = pb.Int64(-1)
		return hostile{"seq:with-expected-version", put(p)}
	case 6:
		return hostile{"seq:more-deltas", &proto.WriteRequest{Puts: []*proto.PutRequest{seq("sq5", pk, 1), seq("sq5", pk, 1, 2, 3)}}}
	case 7, 8, 9:
		n := names[rng.IntN(len(names))]
		return hostile{"put:internal-" + n, put(&proto.PutRequest{Key: internalKeys[n], Value: []byte("junk")})}
	case 10, 11:
		n := names[rng.IntN(len(names))]
		return hostile{"del:internal-" + n, &proto.WriteRequest{Deletes: []*proto.DeleteRequest{{Key: internalKeys[n]}}}}
	case 12:
		return hostile{"key:empty", put(&proto.PutRequest{Key: "", Value: []byte("e")})}
	case 13:
		return hostile{"key:binary", put(&proto.PutRequest{Key: "a\x00\xff/\x01%zz\xfe", Value: []byte{0, 255}})}
	case 14:
		n := 4096
		if thorough {
			n = 70000
		}
		return hostile{"key:huge", put(&proto.PutRequest{Key: "h" + strings.Repeat("k", n), Value: bigValue(10)})}
	case 15:
		return hostile{"session:unknown", put(&proto.PutRequest{Key: "a", Value: []byte("x"), SessionId: pb.Int64(987654)})}
	case 16:
		return hostile{"session:negative", put(&proto.PutRequest{Key: "a", Value: []byte("x"), SessionId: pb.Int64(-7)})}
	case 17:
		return hostile{"index:weird-name", put(&proto.PutRequest{Key: "a/b", Value: []byte("x"),
			SecondaryIndexes: []*proto.SecondaryIndex{{IndexName: []string{"", "x/y", "x\x01y", "__oxia"}[rng.IntN(4)], SecondaryKey: "k"}}})}
	case 18:
		return hostile{"index:weird-key", put(&proto.PutRequest{Key: "a/c", Value: []byte("x"),
			SecondaryIndexes: []*proto.SecondaryIndex{{IndexName: "ia", SecondaryKey: []string{"", "k/l", "k\x01l", "\x01"}[rng.IntN(4)]}}})}
	case 19:
		return hostile{"index:overwrite-weird", &proto.WriteRequest{Puts: []*proto.PutRequest{
			{Key: "a/d", Value: []byte("1"), SecondaryIndexes: []*proto.SecondaryIndex{{IndexName: "x/y", SecondaryKey: "k\x01"}}},
			{Key: "a/d", Value: []byte("2")}}}}
	case 31, 32, 33:
		// the same key written again with another number of index entries (fewer, more, repeated, none)
		mk := func(n int) []*proto.SecondaryIndex {
			var out []*proto.SecondaryIndex
			for i := 0; i < n; i++ {
				out = append(out, &proto.SecondaryIndex{IndexName: []string{"ia", "ib", "ia"}[i%3], SecondaryKey: fmt.Sprintf("k%d", i%2)})
			}
			return out
		}
		a, b := 1+rng.IntN(4), rng.IntN(5)
		tag := "index:overwrite-same-count"
		switch {
		case b == 0:
			tag = "index:overwrite-without"
		case b < a:
			tag = "index:overwrite-fewer"
		case b > a:
			tag = "index:overwrite-more"
		}
		key := []string{"a/g", "a"}[rng.IntN(2)]
		req := &proto.WriteRequest{Puts: []*proto.PutRequest{{Key: key, Value: []byte("1"), SecondaryIndexes: mk(a)}, {Key: key, Value: []byte("2"), SecondaryIndexes: mk(b)}}}
		if rng.IntN(2) == 0 {
			req.Deletes = []*proto.DeleteRequest{{Key: key}}
		}
		return hostile{tag, req}
	case 20:
		return hostile{"range:all", &proto.WriteRequest{DeleteRanges: []*proto.DeleteRangeRequest{{StartInclusive: "", EndExclusive: "\xff\xff/\xff"}}}}
	case 21:
		return hostile{"range:noslash-to-slash", &proto.WriteRequest{DeleteRanges: []*proto.DeleteRangeRequest{{StartInclusive: "a", EndExclusive: "b/c"}}}}
	case 22:
		return hostile{"range:internal-prefix", &proto.WriteRequest{DeleteRanges: []*proto.DeleteRangeRequest{{StartInclusive: "__oxia/", EndExclusive: "__oxia//"}}}}
	case 23:
		return hostile{"range:inverted", &proto.WriteRequest{DeleteRanges: []*proto.DeleteRangeRequest{{StartInclusive: "z", EndExclusive: "a"}}}}
	case 24:
		return hostile{"empty-request", &proto.WriteRequest{}}
	case 25:
		// a session-looking key written by a client, then an ephemeral put naming that "session"
		return hostile{"session:forged", &proto.WriteRequest{Puts: []*proto.PutRequest{
			{Key: server.SessionKey(77), Value: []byte("not-metadata")},
			{Key: "a/e", Value: []byte("x"), SessionId: pb.Int64(77)}}}}
	case 26:
		n := 200
		if thorough {
			n = 5000
		}
		req := &proto.WriteRequest{}
		for i := 0; i < n; i++ {
			req.Puts = append(req.Puts, &proto.PutRequest{Key: fmt.Sprintf("big/%05d", i%97), Value: []byte("v")})
		}
		return hostile{"many-ops", req}
	case 27:
		return hostile{"del:expected-on-absent", &proto.WriteRequest{Deletes: []*proto.DeleteRequest{{Key: "nope", ExpectedVersionId: pb.Int64(3)}}}}
	case 28:
		return hostile{"range:over-session-shadows", &proto.WriteRequest{DeleteRanges: []*proto.DeleteRangeRequest{{StartInclusive: "__oxia/session/", EndExclusive: "__oxia/session//"}}}}
	default:
		return hostile{"put:partition-key-only", put(&proto.PutRequest{Key: "a/f", Value: []byte("x"), PartitionKey: pb.String("")})}
	}
}

// foldLog applies the leader's whole WAL to a fresh database the way a follower would.
func foldLog(l *shard.Leader, dir string) (applied int, err error) {
	f, err := shard.NewKVFactory(filepath.Join(dir, "fold"))
	if err != nil {
		return 0, err
	}
	defer f.Close()
	db, err := kv.NewDB(shard.Namespace, l.Shard, f, time.Hour, time2.SystemClock)
	if err != nil {
		return 0, err
	}
	defer db.Close()
	w := l.WalF.Wal(l.Shard)
	if w.LastOffset() < 0 {
		return 0, nil
	}
	rd, err := w.NewReader(w.FirstOffset() - 1)
	if err != nil {
		return 0, err
	}
	defer rd.Close()
	for rd.HasNext() {
		e, err := rd.ReadNext()
		if err != nil {
			return applied, err
		}
		lev := &proto.LogEntryValue{}
		if err := lev.UnmarshalVT(e.Value); err != nil {
			return applied, err
		}
		for _, wr := range lev.GetRequests().Writes {
			if _, err := db.ProcessWrite(wr, e.Offset, e.Timestamp, server.WrapperUpdateOperationCallback); err != nil {
				return applied, fmt.Errorf("offset %d: %w", e.Offset, err)
			}
		}
		applied++
	}
	return applied, nil
}

func readNotifications(l *shard.Leader, upTo int64) (n int, err error) {
	ctx, cancel := context.WithCancel(context.Background())
	defer cancel()
	done := make(chan error, 1)
	got := make(chan int64, 1024)
	start := int64(-1)
	l.LC.GetNotifications(ctx, &proto.NotificationsRequest{Shard: l.Shard, StartOffsetExclusive: &start},
		concurrent.NewStreamOnce(func(b *proto.NotificationBatch) error {
			select {
			case got <- b.Offset:
			default:
			}
			return nil
		}, func(err error) { done <- err }))
	last := int64(-1)
	for last < upTo {
		select {
		case o := <-got:
			last = o
			n++
		case err := <-done:
			return n, err
		case <-time.After(10 * time.Second):
			return n, fmt.Errorf("no notification batch within 10s (last offset %d, waiting for %d)", last, upTo)
		}
	}
	return n, nil
}

func runC13(tier string, seed uint64, idx int) core.Result {
	r := core.NewR("C13.hostile", idx)
	rng := core.CaseSeed(seed, "C13.hostile", idx)
	dir, err := os.MkdirTemp("", "c13-")
	if err != nil {
		r.Inconclusive(err.Error())
		return r.Done()
	}
	defer os.RemoveAll(dir)
	l, err := shard.NewLeader(dir, 0, true)
	if err != nil {
		r.Inconclusive(err.Error())
		return r.Done()
	}
	defer func() { l.Close() }()
	thorough := tier == "thorough"
	n := tierN(tier, 50, 60)
	var tags []string
	seen := map[string]bool{}
	lastOffset := int64(-1)
	viol := func(clause, tag, detail string) {
		r.Violate("C13/"+clause+"/"+tag, detail+"; features so far: "+strings.Join(tags, ","), map[string]any{"features": tags})
	}
	// one live session so that shadow keys exist
	sess, err := l.LC.CreateSession(&proto.CreateSessionRequest{Shard: 0, SessionTimeoutMs: 300_000})
	if err != nil {
		r.Violate("C13/create-session-error/plain", err.Error(), nil)
		return r.Done()
	}
	lastOffset++
	refused := 0
	// segment: one leader life. After an apply error the node is examined, thrown away and the sequence
	// continues on a fresh node, so that one finding does not hide the features that follow it.
	examine := func(poisoned string) {
		culprit := poisoned
		if culprit == "" {
			culprit = "after:" + lastInternal(tags)
		}
		prevTerm := l.Term
		if err := l.Restart(); err != nil {
			viol("restart-failed", culprit, "after these requests the node cannot be reopened / become leader: "+scrub(err.Error()))
			return
		}
		r.Count("restarts_ok_or_checked", 1)
		if l.TermAtOpen < prevTerm {
			viol("term-regressed-after-restart", culprit, fmt.Sprintf("node knew term %d before the restart and reads back %d", prevTerm, l.TermAtOpen))
		}
		if applied, err := foldLog(l, dir); err != nil {
			viol("replica-cannot-apply", culprit, fmt.Sprintf("a fresh replica applying the same log stops after %d entries: %s", applied, scrub(err.Error())))
		} else {
			r.Count("replica_folds", 1)
			r.Count("log_entries_folded", int64(applied))
		}
		_ = os.RemoveAll(filepath.Join(dir, "fold"))
		if poisoned == "" {
			if nb, err := readNotifications(l, lastOffset); err != nil {
				viol("notifications-unreadable", culprit, fmt.Sprintf("notification stream failed after %d batches: %s", nb, scrub(err.Error())))
			} else {
				r.Count("notification_batches_read", int64(nb))
			}
		}
	}
	for i := 0; i < n && r.Violations() < 6; i++ {
		var h hostile
		afterPlain := false
		if rng.IntN(3) == 0 {
			// ordinary traffic in between
			p := &proto.PutRequest{Key: []string{"a", "a/b", "b", "sq", "a/e"}[rng.IntN(5)], Value: []byte(fmt.Sprint(i))}
			if rng.IntN(4) == 0 && sess != nil {
				p.SessionId = pb.Int64(sess.SessionId)
			}
			if rng.IntN(4) == 0 {
				p.SecondaryIndexes = []*proto.SecondaryIndex{{IndexName: "ia", SecondaryKey: "k"}}
			}
			h = hostile{"plain", &proto.WriteRequest{Puts: []*proto.PutRequest{p}}}
		} else {
			h = genHostile(rng, thorough)
			if rng.IntN(3) == 0 && h.tag != "empty-request" {
				// the hostile operation is not the first of its batch
				plain := []*proto.PutRequest{{Key: "a/plain", Value: []byte("p")}}
				if rng.IntN(2) == 0 {
					plain = append(plain, &proto.PutRequest{Key: "b", Value: []byte("p")})
				}
				h.req.Puts = append(plain, h.req.Puts...)
				if len(h.req.Deletes) > 0 {
					h.req.Deletes = append([]*proto.DeleteRequest{{Key: "a/plain-absent"}}, h.req.Deletes...)
				}
				if len(h.req.DeleteRanges) > 0 {
					h.req.DeleteRanges = append([]*proto.DeleteRangeRequest{{StartInclusive: "a/x", EndExclusive: "a/y"}}, h.req.DeleteRanges...)
				}
				afterPlain = true
				r.Count("hostile_after_plain", 1)
			}
			r.Count("hostile_requests", 1)
			seen[h.tag] = true
		}
		if afterPlain {
			tags = append(tags, h.tag+"(after plain ops in the same request)")
		} else {
			tags = append(tags, h.tag)
		}
		walBefore := l.WalF.Wal(l.Shard).LastOffset()
		resp, err := l.Write(h.req)
		if err != nil && status.Code(err) == codes.InvalidArgument {
			// refused at the door: fine as long as it really never reached the log
			if after := l.WalF.Wal(l.Shard).LastOffset(); after != walBefore {
				viol("refused-but-logged", h.tag, fmt.Sprintf("request answered InvalidArgument but the log grew from %d to %d", walBefore, after))
			}
			refused++
			r.Count("refused_at_the_door", 1)
			continue
		}
		if err != nil {
			viol("apply-error", h.tag, "WriteBlock returned an infrastructure error: "+scrub(err.Error()))
			examine(h.tag)
			// fresh node for the rest of the sequence
			l.Close()
			_ = os.RemoveAll(dir)
			_ = os.MkdirAll(dir, 0o755)
			var nerr error
			if l, nerr = shard.NewLeader(dir, 0, true); nerr != nil {
				r.Inconclusive("cannot start a fresh node: " + nerr.Error())
				return finishC13(r, tags, seen, idx)
			}
			lastOffset = -1
			sess = nil
			r.Count("nodes_replaced_after_error", 1)
			continue
		}
		lastOffset++
		if len(resp.Puts) != len(h.req.Puts) || len(resp.Deletes) != len(h.req.Deletes) || len(resp.DeleteRanges) != len(h.req.DeleteRanges) {
			viol("response-shape", h.tag, "number of per-operation results differs from the number of operations")
			break
		}
	}
	// the node must be able to restart and lead again, whatever it was sent
	examine("")
	return finishC13(r, tags, seen, idx)
}

// lastInternal names the most recent feature that touched the internal key space (the usual suspect for
// restart problems), or "none".
func lastInternal(tags []string) string {
	for i := len(tags) - 1; i >= 0; i-- {
		t := tags[i]
		if strings.Contains(t, "internal") || strings.HasPrefix(t, "range:") || strings.HasPrefix(t, "session:forged") {
			return t
		}
	}
	return "none"
}

func finishC13(r *core.R, tags []string, seen map[string]bool, idx int) core.Result {
	if len(seen) >= 5 {
		r.Nontrivial()
	}
	r.FP(strings.Join(tags, ","))
	if idx < 2 {
		r.Sample(map[string]any{"features": tags})
	}
	return r.Done()
}
