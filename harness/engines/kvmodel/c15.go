package kvmodel

import (
	"bytes"
	"fmt"
	"net/url"
	"sort"
	"strings"

	pb "google.golang.org/protobuf/proto"

	"github.com/oxia-db/oxia/proto"

	"verif/lib/core"
	"verif/lib/refmodel"
)

func init() {
	core.Register(&core.Part{
		Name: "C15.index", Prop: "C15",
		Cases: func(tier string) int { return tierN(tier, 100, 3000) },
		Run:   runC15,
		Rule: "seeded write sequences (30 requests) where most puts declare 0..3 entries in 4 index names chosen to be adjacent in key order (ia, ia0, iab, ib), several records sharing a secondary key, overwrites that change/drop indexes, deletes, delete ranges, closing sessions that own indexed records; " +
			"in every third case the secondary keys and probes contain '/' (k/a, k/a/b, m/x/y ...), where the store's hierarchical key order and the byte order differ, and the reference is sorted by an independent implementation of the hierarchical order; " +
			"after every request the raw index entries are compared with the model and a battery of queries (list, range-scan, get with EQUAL/FLOOR/CEILING/LOWER/HIGHER and an index name) for probes at, between, below the first and above the last entry of every index (and of an index that does not exist) is compared with a sorted reference of that index only; " +
			"non-trivial = >= 2 indexes non-empty at some point and a query probed past the end of an index; distinct = request trace",
		MinNontrivial:    func(tier string) int { return tierN(tier, 50, 1500) },
		RequiredCounters: []string{"index_queries", "index_gets_past_end", "index_entries_compared", "index_list_results", "index_gets_with_slash"},
		CaseTimeoutS:     120,
	})
}

type idxRef struct {
	sec, primary string
	composed     string // secondary + \x01 + escaped primary: the engine's order inside one index
}

func indexRef(m *refmodel.Model, name string) []idxRef {
	var res []idxRef
	for _, e := range m.IndexEntries(name) {
		res = append(res, idxRef{e.Secondary, e.Primary, e.Secondary + "\x01" + url.PathEscape(e.Primary)})
	}
	// the engine's (hierarchical) key order; for secondary keys without '/' it is the byte order
	sort.Slice(res, func(i, j int) bool { return refmodel.SlashCmp(res[i].composed, res[j].composed) < 0 })
	return res
}

var idxProbes = []string{"", "a", "j", "k", "k0", "k1", "ka", "kz", "l", "m", "m.", "m/", "n", "y", "z", "zz", "~"}

// secondary keys and probes with '/': inside one index the entries are ordered by the store's hierarchical key order
// of the secondary key (fewer segments first), which differs from the byte order exactly here
var idxKeysSlash = []string{"k", "k/a", "k/b", "k0", "k/a/b", "m", "m/x/y", "z", "k!"}
var idxProbesSlash = []string{"", "k", "k/", "k/a", "k/a0", "k/b", "k/c", "k0", "k/a/b", "k/a/", "k!", "l", "l/a", "m", "m/x", "m/x/y", "m/x/z", "z", "z/a", "~", "~/~/~"}

var idxQueryNames = []string{"ia", "ia0", "iab", "ib", "i", "ic", "ia1"}

func (h *seqHarness) indexBattery() bool {
	for _, name := range idxQueryNames {
		ref := indexRef(h.M, name)
		nm := name
		// list + range-scan on a few ranges
		ranges := [][2]string{{"", "~~"}, {"k", "m"}, {"k0", "kz"}, {"m", "k"}, {"l", "zz"}}
		probes := idxProbes
		if h.idxSlash {
			probes = idxProbesSlash
			ranges = append(ranges, [2]string{"k/", "k/~"}, [2]string{"k", "k/a/b"}, [2]string{"", "~/~/~/~"}, [2]string{"k/a", "m/x"})
		}
		a, b := probes[h.rng.IntN(len(probes))], probes[h.rng.IntN(len(probes))]
		ranges = append(ranges, [2]string{a, b})
		for _, rg := range ranges {
			if !h.idxSlash && (strings.Contains(rg[0], "/") || strings.Contains(rg[1], "/")) {
				continue
			}
			var want []string
			for _, e := range ref {
				if refmodel.SlashCmp(e.composed, rg[0]) >= 0 && refmodel.SlashCmp(e.composed, rg[1]) < 0 {
					want = append(want, e.primary)
				}
			}
			got, err := h.L.List(rg[0], rg[1], &nm)
			if err != nil {
				h.viol("index-list-error", scrub(err.Error()))
				return false
			}
			h.r.Count("index_queries", 1)
			h.r.Count("index_list_results", int64(len(got)))
			if strings.Join(got, "\x00") != strings.Join(want, "\x00") {
				h.viol("index-list-mismatch", fmt.Sprintf("list(index=%s,[%q,%q)) returned %q, reference says %q", name, rg[0], rg[1], got, want))
				return false
			}
			recs, err := h.L.RangeScan(rg[0], rg[1], &nm)
			if err != nil {
				h.viol("index-scan-error", scrub(err.Error()))
				return false
			}
			h.r.Count("index_queries", 1)
			if len(recs) != len(want) {
				h.viol("index-scan-mismatch", fmt.Sprintf("range-scan(index=%s,[%q,%q)) returned %d records, reference says %d", name, rg[0], rg[1], len(recs), len(want)))
				return false
			}
			for i, k := range want {
				if recs[i].Key == nil || *recs[i].Key != k {
					h.viol("index-scan-mismatch", fmt.Sprintf("range-scan(index=%s) record %d has key %v, want %q", name, i, recs[i].Key, k))
					return false
				}
				if !h.checkRecord("index-scan", k, recs[i], true) {
					return false
				}
			}
		}
		// comparison gets
		secKeys := []string{}
		bySec := map[string][]string{}
		for _, e := range ref {
			if _, ok := bySec[e.sec]; !ok {
				secKeys = append(secKeys, e.sec)
			}
			bySec[e.sec] = append(bySec[e.sec], e.primary)
		}
		sort.Slice(secKeys, func(i, j int) bool { return refmodel.SlashCmp(secKeys[i], secKeys[j]) < 0 })
		le := func(a, b string) bool { return refmodel.SlashCmp(a, b) <= 0 }
		lt := func(a, b string) bool { return refmodel.SlashCmp(a, b) < 0 }
		var gets []*proto.GetRequest
		type expGet struct {
			probe string
			ct    proto.KeyComparisonType
			sec   string
			found bool
		}
		var exps []expGet
		for _, probe := range probes {
			if !h.idxSlash && strings.Contains(probe, "/") {
				continue
			}
			if strings.Contains(probe, "/") {
				h.r.Count("index_gets_with_slash", 1)
			}
			for _, ct := range []proto.KeyComparisonType{proto.KeyComparisonType_EQUAL, proto.KeyComparisonType_FLOOR, proto.KeyComparisonType_CEILING,
				proto.KeyComparisonType_LOWER, proto.KeyComparisonType_HIGHER} {
				e := expGet{probe: probe, ct: ct}
				switch ct {
				case proto.KeyComparisonType_EQUAL:
					_, e.found = bySec[probe]
					e.sec = probe
				case proto.KeyComparisonType_FLOOR:
					for _, s := range secKeys {
						if le(s, probe) {
							e.sec, e.found = s, true
						}
					}
				case proto.KeyComparisonType_LOWER:
					for _, s := range secKeys {
						if lt(s, probe) {
							e.sec, e.found = s, true
						}
					}
				case proto.KeyComparisonType_CEILING:
					for i := len(secKeys) - 1; i >= 0; i-- {
						if le(probe, secKeys[i]) {
							e.sec, e.found = secKeys[i], true
						}
					}
				case proto.KeyComparisonType_HIGHER:
					for i := len(secKeys) - 1; i >= 0; i-- {
						if lt(probe, secKeys[i]) {
							e.sec, e.found = secKeys[i], true
						}
					}
				}
				if len(secKeys) > 0 && (lt(secKeys[len(secKeys)-1], probe) || lt(probe, secKeys[0])) || len(secKeys) == 0 {
					h.r.Count("index_gets_past_end", 1)
				}
				exps = append(exps, e)
				gets = append(gets, &proto.GetRequest{Key: probe, IncludeValue: true, ComparisonType: ct, SecondaryIndexName: pb.String(name)})
			}
		}
		res, err := h.L.Read(gets...)
		if err != nil || len(res) != len(gets) {
			h.viol("index-get-error", fmt.Sprintf("read with index returned %d results for %d gets, err=%v", len(res), len(gets), err))
			return false
		}
		for i, e := range exps {
			got := res[i]
			h.r.Count("index_queries", 1)
			where := "inside"
			if len(secKeys) == 0 {
				where = "empty-index"
			} else if lt(secKeys[len(secKeys)-1], e.probe) {
				where = "above-last"
			} else if lt(e.probe, secKeys[0]) {
				where = "below-first"
			}
			ctx := fmt.Sprintf("%v:%s", e.ct, where)
			if h.idxSlash {
				ctx += ":secondary-keys-with-slash"
			}
			if !e.found {
				if got.Status != proto.Status_KEY_NOT_FOUND {
					gk, gs := "<nil>", "<nil>"
					if got.Key != nil {
						gk = *got.Key
					}
					if got.SecondaryIndexKey != nil {
						gs = *got.SecondaryIndexKey
					}
					h.viol("index-get-leak/"+ctx, fmt.Sprintf("get(index=%s,%v,%q) returned record %q (secondary %q) but index %s has no such entry; its secondary keys are %q",
						name, e.ct, e.probe, gk, gs, name, secKeys))
					return false
				}
				continue
			}
			if got.Status != proto.Status_OK || got.Key == nil {
				h.viol("index-get-miss/"+ctx, fmt.Sprintf("get(index=%s,%v,%q) returned %v, reference says secondary key %q (primaries %q)", name, e.ct, e.probe, got.Status, e.sec, bySec[e.sec]))
				return false
			}
			okPrimary := false
			for _, p := range bySec[e.sec] {
				if p == *got.Key {
					okPrimary = true
				}
			}
			if !okPrimary || got.SecondaryIndexKey == nil || *got.SecondaryIndexKey != e.sec {
				gs := "<nil>"
				if got.SecondaryIndexKey != nil {
					gs = *got.SecondaryIndexKey
				}
				h.viol("index-get-wrong/"+ctx, fmt.Sprintf("get(index=%s,%v,%q) returned primary %q with secondary %q; reference says secondary %q with primaries %q",
					name, e.ct, e.probe, *got.Key, gs, e.sec, bySec[e.sec]))
				return false
			}
			rec := h.M.Recs[*got.Key]
			if rec == nil || got.Version == nil || got.Version.VersionId != rec.VersionId || !bytes.Equal(got.Value, rec.Value) {
				h.viol("index-get-record/"+ctx, fmt.Sprintf("get(index=%s,%v,%q) returned a record for %q that differs from the model", name, e.ct, e.probe, *got.Key))
				return false
			}
		}
	}
	return true
}

func runC15(tier string, seed uint64, idx int) core.Result {
	r := core.NewR("C15.index", idx)
	rng := core.CaseSeed(seed, "C15.index", idx)
	h, err := newSeqHarness("C15", r, rng, true)
	if err != nil {
		r.Violate("C15/node-cannot-start", "a fresh RF=1 node cannot become leader: "+scrub(err.Error()), nil)
		return r.Done()
	}
	defer h.Close()
	u := genUniverse(rng, 6+rng.IntN(10))
	maxIdx := 0
	keys := idxKeys
	if idx%3 == 2 {
		h.idxSlash = true
		keys = idxKeysSlash
		r.Count("cases_with_slash_in_secondary_keys", 1)
	}
	bulkPrefix, bulkAt := "", -1
	if rng.IntN(3) == 0 {
		// a block of indexed records that one delete range removes: both sides of the engine's 100-key switch
		n := []int{99, 100, 101, 150}[rng.IntN(4)]
		bulkPrefix = []string{"bulk", "bulk/"}[rng.IntN(2)]
		if !h.bulkLoad(bulkPrefix, n) {
			return r.Done()
		}
		bulkAt = 5 + rng.IntN(20)
		r.Count("bulk_blocks", 1)
	}
	for i := 0; i < 30 && r.Violations() == 0; i++ {
		if i == bulkAt {
			req := &proto.WriteRequest{DeleteRanges: []*proto.DeleteRangeRequest{{StartInclusive: bulkPrefix + "0000", EndExclusive: bulkPrefix + "9999"}}}
			if _, _, ok := h.step(req); !ok || !h.dumpCompare() || !h.indexBattery() {
				break
			}
			r.Count("bulk_ranges_deleted", 1)
			continue
		}
		switch rng.IntN(10) {
		case 0:
			if len(h.liveSessions) < 2 {
				if !h.createSession() {
					return r.Done()
				}
				continue
			}
		case 1:
			if len(h.liveSessions) > 0 {
				if !h.closeSession(h.liveSessions[rng.IntN(len(h.liveSessions))]) {
					return r.Done()
				}
				if !h.dumpCompare() || !h.indexBattery() {
					return r.Done()
				}
				continue
			}
		}
		req := &proto.WriteRequest{}
		for n := 1 + rng.IntN(4); n > 0; n-- {
			p := &proto.PutRequest{Key: u.pick(rng), Value: h.nextValue()}
			for k := rng.IntN(4); k > 0; k-- {
				p.SecondaryIndexes = append(p.SecondaryIndexes, &proto.SecondaryIndex{
					IndexName: idxNames[rng.IntN(len(idxNames))], SecondaryKey: keys[rng.IntN(len(keys))]})
			}
			if len(h.liveSessions) > 0 && rng.IntN(4) == 0 {
				p.SessionId = pb.Int64(h.liveSessions[rng.IntN(len(h.liveSessions))])
			}
			req.Puts = append(req.Puts, p)
		}
		if rng.IntN(3) == 0 {
			req.Deletes = append(req.Deletes, &proto.DeleteRequest{Key: u.pick(rng)})
		}
		if rng.IntN(5) == 0 {
			req.DeleteRanges = append(req.DeleteRanges, h.genRange(u))
		}
		if _, _, ok := h.step(req); !ok {
			break
		}
		if !h.dumpCompare() {
			break
		}
		if n := len(h.M.IndexNames()); n > maxIdx {
			maxIdx = n
		}
		if !h.indexBattery() {
			break
		}
	}
	if maxIdx >= 2 && r.Get("index_gets_past_end") > 0 {
		r.Nontrivial()
	}
	r.FP(strings.Join(h.trace, ";"))
	if idx < 2 {
		r.Sample(map[string]any{"keys": u.keys, "trace": h.tail(10), "index_names": idxNames})
	}
	return r.Done()
}
