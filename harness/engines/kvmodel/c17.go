package kvmodel

import (
	"context"
	"fmt"
	"os"
	"path/filepath"
	"sort"
	"strings"
	"sync"
	"sync/atomic"
	"time"

	pb "google.golang.org/protobuf/proto"

	"github.com/oxia-db/oxia/common/concurrent"
	time2 "github.com/oxia-db/oxia/common/time"
	"github.com/oxia-db/oxia/common/vhook"
	"github.com/oxia-db/oxia/proto"
	"github.com/oxia-db/oxia/server"
	"github.com/oxia-db/oxia/server/kv"

	"verif/lib/core"
	"verif/lib/refmodel"
	"verif/lib/shard"
)

func init() {
	core.Register(&core.Part{
		Name: "C17.stream", Prop: "C17",
		Cases: func(tier string) int { return tierN(tier, 60, 1500) },
		Run:   runC17Stream,
		Rule: "40 requests per case from the C12 generator (plus session create/close) on an RF=1 leader with notifications on; the model yields the expected batch per committed request; a subscriber reads the stream through GetNotifications and is cut and resumed with the last offset it saw at 3 seeded points, one of them across a restart of the node (new term); " +
			"oracle: offsets strictly increasing, exactly one batch per committed request, batch content = created/modified/deleted/range-deleted user keys with version ids, no internal key, no loss or duplicate across resumptions; non-trivial = >= 3 resumptions incl. one after restart and >= 1 batch with a range delete; distinct = request trace",
		MinNontrivial:    func(tier string) int { return tierN(tier, 20, 500) },
		RequiredCounters: []string{"batches_checked", "resumptions", "restarts", "notifications_checked"},
		CaseTimeoutS:     120,
	})
	core.Register(&core.Part{
		Name: "C17.trim", Prop: "C17",
		Cases: func(tier string) int { return tierN(tier, 8, 60) },
		Run:   runC17Trim,
		Rule: "bare kv.NewDB with a mocked clock and a 5s retention (trimmer tick 500ms): batches with controlled timestamps, clock advanced, wait until the first stored notification key has moved (trimming observed, else inconclusive); in every second case one more request is committed from the hook between a trimming round's scan and its range delete (in half of those after every stored batch has expired); a reader resuming from an offset still inside retention must receive every batch with timestamp > now - retention, contiguous; " +
			"non-trivial = trimming was observed; distinct = (timestamps, clock)",
		MinNontrivial:    func(tier string) int { return tierN(tier, 3, 20) },
		RequiredCounters: []string{"trims_observed", "requests_committed_during_a_trim_round"},
		CaseTimeoutS:     120,
		Weight:           1,
	})
}

type batchExp struct {
	offset int64
	desc   string
	exp    *refmodel.Exp // nil for internal-only requests (session create)
	req    *proto.WriteRequest
	resp   *proto.WriteResponse
	closed []string // keys removed by a session close
}

// subscriber collects batches from one GetNotifications call.
type notifSub struct {
	cancel context.CancelFunc
	mu     sync.Mutex
	got    []*proto.NotificationBatch
	done   chan error
}

func openSub(l *shard.Leader, startExclusive int64) *notifSub {
	ctx, cancel := context.WithCancel(context.Background())
	s := &notifSub{cancel: cancel, done: make(chan error, 1)}
	l.LC.GetNotifications(ctx, &proto.NotificationsRequest{Shard: l.Shard, StartOffsetExclusive: &startExclusive},
		concurrent.NewStreamOnce(func(b *proto.NotificationBatch) error {
			s.mu.Lock()
			s.got = append(s.got, b)
			s.mu.Unlock()
			return nil
		}, func(err error) { s.done <- err }))
	return s
}

// waitFor waits until the subscriber has seen offset `upTo` (bounded; the bound only yields inconclusive).
func (s *notifSub) waitFor(upTo int64) (ok bool, streamErr error) {
	dl := time.Now().Add(8 * time.Second)
	for {
		s.mu.Lock()
		n := len(s.got)
		var last int64 = -1
		if n > 0 {
			last = s.got[n-1].Offset
		}
		s.mu.Unlock()
		if last >= upTo {
			return true, nil
		}
		select {
		case err := <-s.done:
			return false, err
		default:
		}
		if time.Now().After(dl) {
			return false, nil
		}
		time.Sleep(200 * time.Microsecond)
	}
}

func (s *notifSub) take() []*proto.NotificationBatch {
	s.mu.Lock()
	defer s.mu.Unlock()
	res := s.got
	s.got = nil
	return res
}

func checkBatch(h *seqHarness, be batchExp, b *proto.NotificationBatch) bool {
	h.r.Count("batches_checked", 1)
	ctx := fmt.Sprintf("offset %d (%s)", be.offset, be.desc)
	for k := range b.Notifications {
		if strings.HasPrefix(k, "__oxia/") {
			h.viol("internal-key-in-batch", fmt.Sprintf("%s: notification for internal key %q", ctx, k))
			return false
		}
	}
	want := map[string]string{} // key -> acceptable descriptions separated by |
	if be.exp != nil {
		for k, v := range be.exp.Created {
			want[k] = fmt.Sprintf("KEY_CREATED:%d", v)
			if be.exp.Either[k] {
				want[k] += fmt.Sprintf("|KEY_MODIFIED:%d", v)
			}
		}
		for k, v := range be.exp.Modified {
			want[k] = fmt.Sprintf("KEY_MODIFIED:%d", v)
		}
		for k := range be.exp.Deleted {
			want[k] = "KEY_DELETED"
		}
	}
	for _, k := range be.closed {
		want[k] = "KEY_DELETED"
	}
	// ranges: the stream keys a range notification by its start key, so it replaces whatever that key had
	rangeByStart := map[string]string{}
	if be.exp != nil {
		for _, rg := range be.exp.RangeDel {
			rangeByStart[rg[0]] = rg[1]
		}
	}
	// optional entries: keys written by an OK put of this request that a later op of the same request removed
	optional := map[string]bool{}
	if be.exp != nil && be.req != nil {
		for i, pe := range be.exp.Puts {
			if pe.Status == proto.Status_OK && !pe.Any {
				if _, isWant := want[pe.Key]; !isWant {
					optional[pe.Key] = true
				}
			}
			_ = i
		}
	}
	for k, n := range b.Notifications {
		h.r.Count("notifications_checked", 1)
		desc := n.Type.String()
		if n.VersionId != nil {
			desc += fmt.Sprintf(":%d", *n.VersionId)
		}
		if n.Type == proto.NotificationType_KEY_RANGE_DELETED {
			end, ok := rangeByStart[k]
			if !ok || n.KeyRangeLast == nil || *n.KeyRangeLast != end {
				// two ranges with the same start: the later one is what the map keeps; accept any requested end for that start
				okAny := false
				if be.exp != nil && n.KeyRangeLast != nil {
					for _, rg := range be.exp.RangeDel {
						if rg[0] == k && rg[1] == *n.KeyRangeLast {
							okAny = true
						}
					}
				}
				if !okAny {
					h.viol("batch-content/unexpected-range", fmt.Sprintf("%s: range notification [%q,%v) was not requested", ctx, k, n.KeyRangeLast))
					return false
				}
			}
			continue
		}
		w, ok := want[k]
		if !ok {
			if optional[k] {
				continue
			}
			h.viol("batch-content/unexpected-key", fmt.Sprintf("%s: notification %s for key %q which this request did not change", ctx, desc, k))
			return false
		}
		match := false
		for _, alt := range strings.Split(w, "|") {
			if alt == desc {
				match = true
			}
		}
		if !match {
			h.viol("batch-content/wrong-notification", fmt.Sprintf("%s: key %q notified as %s, model says %s", ctx, k, desc, w))
			return false
		}
	}
	// completeness
	for k, w := range want {
		n, ok := b.Notifications[k]
		if ok && n.Type != proto.NotificationType_KEY_RANGE_DELETED {
			continue
		}
		if ok && n.Type == proto.NotificationType_KEY_RANGE_DELETED {
			// the key's own notification was replaced by a range entry that starts at the same key
			if strings.HasPrefix(w, "KEY_DELETED") && n.KeyRangeLast != nil && refmodel.SlashCmp(k, *n.KeyRangeLast) < 0 {
				continue // the range covers the key: its removal is described
			}
			h.viol("batch-content/overridden-by-range-entry", fmt.Sprintf("%s: %s of key %q is not described: its entry was replaced by the range notification [%q,%q) that starts at the same key", ctx, w, k, k, *n.KeyRangeLast))
			return false
		}
		h.viol("batch-content/missing-key", fmt.Sprintf("%s: no notification for key %q (%s)", ctx, k, w))
		return false
	}
	if be.exp != nil {
		for k := range be.exp.RangeHit {
			covered := false
			for _, n := range b.Notifications {
				_ = n
			}
			for s, n := range b.Notifications {
				if n.Type == proto.NotificationType_KEY_RANGE_DELETED && n.KeyRangeLast != nil &&
					refmodel.SlashCmp(k, s) >= 0 && refmodel.SlashCmp(k, *n.KeyRangeLast) < 0 {
					covered = true
				}
			}
			if !covered {
				h.viol("batch-content/range-deleted-key-not-described", fmt.Sprintf("%s: key %q was removed by a delete range of this request but no range notification of the batch covers it (ranges requested: %v)", ctx, k, be.exp.RangeDel))
				return false
			}
		}
	}
	return true
}

func runC17Stream(tier string, seed uint64, idx int) core.Result {
	r := core.NewR("C17.stream", idx)
	rng := core.CaseSeed(seed, "C17.stream", idx)
	h, err := newSeqHarness("C17", r, rng, true)
	if err != nil {
		r.Violate("C17/node-cannot-start", "a fresh RF=1 node cannot become leader: "+scrub(err.Error()), nil)
		return r.Done()
	}
	defer h.Close()
	u := genUniverse(rng, 8+rng.IntN(20))
	o := genOpts{sessions: true, indexes: true, seq: true}
	nReq := 40
	var batches []batchExp
	nextOffset := int64(0)
	lastSeen := int64(-1)
	// widen the window between a reader's "nothing new yet" check and its wait (bounded sleep only: the
	// point is reached with the tracker lock held)
	var hookHits atomic.Int64
	vhook.Clear()
	vhook.Set("notif.wait.before", func(string, ...any) {
		if hookHits.Add(1)%2 == 0 {
			time.Sleep(2 * time.Millisecond)
		}
	})
	defer vhook.Clear()
	sub := openSub(h.L, lastSeen)
	defer func() { sub.cancel() }()
	resumeAt := map[int]string{}
	for len(resumeAt) < 3 {
		resumeAt[1+rng.IntN(nReq-1)] = "resume"
	}
	restartDone := false
	sawRange := false
	checked := 0

	verify := func(upTo int64) bool {
		if lastSeen >= upTo {
			return true
		}
		ok, serr := sub.waitFor(upTo)
		if !ok && serr == nil {
			// Stalled although the batch is committed. Distinguish "slow machine" from "waiting for a wake-up that
			// was lost": commit one more request; if that alone makes the stalled batch arrive, delivery depended on
			// a later write (logical evidence, not a clock).
			poke := &proto.WriteRequest{Puts: []*proto.PutRequest{{Key: "zz-poke", Value: h.nextValue()}}}
			pokeCopy := poke.CloneVT()
			if exp, resp, okStep := h.step(poke); okStep {
				e := exp
				batches = append(batches, batchExp{offset: nextOffset, desc: h.lastShape, exp: &e, req: pokeCopy, resp: resp})
				nextOffset++
				if ok2, _ := sub.waitFor(upTo); ok2 {
					h.viol("delivery-stalled-until-next-write", fmt.Sprintf("batch %d was committed and all writes had returned, the subscriber (resumed after %d) did not receive it for 8s and received it right after one more request was committed", upTo, lastSeen))
					return false
				}
			}
			r.Inconclusive(fmt.Sprintf("subscriber did not reach offset %d within 8s", upTo))
			return false
		}
		if !ok {
			h.viol("stream-error", "notification stream ended: "+scrub(serr.Error()))
			return false
		}
		for _, b := range sub.take() {
			if b.Offset != lastSeen+1 {
				kind := "gap"
				if b.Offset <= lastSeen {
					kind = "duplicate-or-reorder"
				}
				h.viol("stream-order/"+kind, fmt.Sprintf("received batch offset %d after %d", b.Offset, lastSeen))
				return false
			}
			lastSeen = b.Offset
			if int(b.Offset) >= len(batches) {
				h.viol("stream-order/uncommitted", fmt.Sprintf("batch for offset %d but only %d requests were committed", b.Offset, len(batches)))
				return false
			}
			if !checkBatch(h, batches[b.Offset], b) {
				return false
			}
			checked++
		}
		return true
	}

	for i := 0; i < nReq && r.Violations() == 0; i++ {
		switch rng.IntN(12) {
		case 0:
			if len(h.liveSessions) < 3 {
				if !h.createSession() {
					return r.Done()
				}
				batches = append(batches, batchExp{offset: nextOffset, desc: "create-session"})
				nextOffset++
				continue
			}
		case 1:
			if len(h.liveSessions) > 0 {
				id := h.liveSessions[rng.IntN(len(h.liveSessions))]
				var owned []string
				for k, rec := range h.M.Recs {
					if rec.Session != nil && *rec.Session == id {
						owned = append(owned, k)
					}
				}
				sort.Strings(owned)
				if !h.closeSession(id) {
					return r.Done()
				}
				batches = append(batches, batchExp{offset: nextOffset, desc: fmt.Sprintf("close-session %d", id), closed: owned})
				nextOffset++
				continue
			}
		}
		req := h.genRequest(u, o)
		reqCopy := req.CloneVT()
		exp, resp, ok := h.step(req)
		if !ok {
			break
		}
		if len(exp.RangeDel) > 0 {
			sawRange = true
		}
		e := exp
		batches = append(batches, batchExp{offset: nextOffset, desc: h.lastShape, exp: &e, req: reqCopy, resp: resp})
		nextOffset++

		if _, cut := resumeAt[i]; cut {
			if !verify(nextOffset - 1 - int64(rng.IntN(2))) { // sometimes cut while one batch is still unread
				break
			}
			sub.cancel()
			// anything still buffered belongs to the old subscription: it counts as not seen
			sub.take()
			if !restartDone && rng.IntN(2) == 0 {
				if err := h.L.Restart(); err != nil {
					h.viol("restart-error", scrub(err.Error()))
					break
				}
				restartDone = true
				r.Count("restarts", 1)
				h.trace = append(h.trace, "restart")
			}
			sub = openSub(h.L, lastSeen)
			r.Count("resumptions", 1)
			h.trace = append(h.trace, fmt.Sprintf("resume-after %d", lastSeen))
		}
	}
	if r.Violations() == 0 {
		if !restartDone {
			verify(nextOffset - 1)
			sub.cancel()
			sub.take()
			if err := h.L.Restart(); err != nil {
				h.viol("restart-error", scrub(err.Error()))
			} else {
				restartDone = true
				r.Count("restarts", 1)
				r.Count("resumptions", 1)
				sub = openSub(h.L, lastSeen)
				// one more request so that something arrives after the restart
				req := &proto.WriteRequest{Puts: []*proto.PutRequest{{Key: u.pick(rng), Value: h.nextValue()}}}
				reqCopy := req.CloneVT()
				if exp, resp, ok := h.step(req); ok {
					e := exp
					batches = append(batches, batchExp{offset: nextOffset, desc: h.lastShape, exp: &e, req: reqCopy, resp: resp})
					nextOffset++
				}
			}
		}
		if r.Violations() == 0 {
			verify(nextOffset - 1)
		}
	}
	r.Count("reader_wait_window_hits", hookHits.Load())
	if r.Get("resumptions") >= 3 && restartDone && sawRange {
		r.Nontrivial()
	}
	r.FP(strings.Join(h.trace, ";"))
	if idx < 2 {
		r.Sample(map[string]any{"trace": h.tail(10), "batches_checked": checked})
	}
	return r.Done()
}

func runC17Trim(tier string, seed uint64, idx int) core.Result {
	r := core.NewR("C17.trim", idx)
	rng := core.CaseSeed(seed, "C17.trim", idx)
	dir, err := os.MkdirTemp("", "c17t-")
	if err != nil {
		r.Inconclusive(err.Error())
		return r.Done()
	}
	defer os.RemoveAll(dir)
	f, err := shard.NewKVFactory(filepath.Join(dir, "db"))
	if err != nil {
		r.Inconclusive(err.Error())
		return r.Done()
	}
	defer f.Close()
	clock := &time2.MockedClock{}
	t0 := int64(1_700_000_000_000)
	clock.Set(t0)
	retention := 5 * time.Second
	db, err := kv.NewDB(shard.Namespace, 0, f, retention, clock)
	if err != nil {
		r.Inconclusive(err.Error())
		return r.Done()
	}
	defer db.Close()
	n := 20 + rng.IntN(40)
	ts := make([]int64, n)
	cur := t0
	for i := 0; i < n; i++ {
		cur += rng.Int64N(800)
		ts[i] = cur
		req := &proto.WriteRequest{Puts: []*proto.PutRequest{{Key: fmt.Sprintf("k%d", i%7), Value: []byte("v")}}}
		if _, err := db.ProcessWrite(req, int64(i), uint64(cur), server.WrapperUpdateOperationCallback); err != nil {
			r.Violate("C17/trim/write-error", scrub(err.Error()), nil)
			return r.Done()
		}
	}
	now := ts[rng.IntN(n)] + retention.Milliseconds() + rng.Int64N(2000)
	// in every second case a request is committed while a trimming round is between its scan and its range delete;
	// in half of those every stored batch has expired by then
	late := idx%2 == 1
	if late && rng.IntN(2) == 0 {
		now = ts[n-1] + retention.Milliseconds() + 1 + rng.Int64N(2000)
	}
	var lateOnce sync.Once
	var lateDone atomic.Bool
	var lateErr atomic.Value
	vhook.Clear()
	defer vhook.Clear()
	if late {
		vhook.Set("notif.trim.before-delete", func(string, ...any) {
			lateOnce.Do(func() {
				req := &proto.WriteRequest{Puts: []*proto.PutRequest{{Key: "late", Value: []byte("v")}}}
				if _, err := db.ProcessWrite(req, int64(n), uint64(now), server.WrapperUpdateOperationCallback); err != nil {
					lateErr.Store(err)
				}
				lateDone.Store(true)
			})
		})
	}
	clock.Set(now)
	cutoff := now - retention.Milliseconds()
	// wait until trimming is observed (first stored notification moved) — bounded, else inconclusive
	k := f.KV(0)
	firstStored := func() int64 {
		it, err := k.KeyRangeScan("__oxia/notifications/", "__oxia/notifications//")
		if err != nil {
			return -2
		}
		defer it.Close()
		if !it.Valid() {
			return -1
		}
		var off int64
		fmt.Sscanf(it.Key(), "__oxia/notifications/%016x", &off)
		return off
	}
	expectTrim := ts[0] <= cutoff
	dl := time.Now().Add(10 * time.Second)
	for expectTrim && firstStored() == 0 {
		if time.Now().After(dl) {
			r.Inconclusive("no trimming observed within 10s")
			return r.Done()
		}
		time.Sleep(50 * time.Millisecond)
	}
	time.Sleep(600 * time.Millisecond) // let a second tick pass; has no influence on the verdict
	fs := firstStored()
	if fs > 0 || fs == -1 {
		r.Count("trims_observed", 1)
		r.Nontrivial()
	}
	vhook.Clear()
	if e, _ := lateErr.Load().(error); e != nil {
		r.Violate("C17/trim/write-error", scrub(e.Error()), nil)
		return r.Done()
	}
	if lateDone.Load() {
		// the request committed during the round is inside retention by construction
		ts = append(ts, now)
		n++
		r.Count("requests_committed_during_a_trim_round", 1)
	}
	// every batch still inside retention must be there
	firstNeeded := int64(-1)
	for i := 0; i < n; i++ {
		if ts[i] > cutoff {
			firstNeeded = int64(i)
			break
		}
	}
	wit := map[string]any{"timestamps": ts, "now": now, "cutoff": cutoff, "first_stored_after_trim": fs, "first_needed": firstNeeded}
	if firstNeeded >= 0 {
		ctx, cancel := context.WithTimeout(context.Background(), 5*time.Second)
		defer cancel()
		got, err := db.ReadNextNotifications(ctx, firstNeeded)
		if err != nil {
			r.Violate("C17/trim/read-error", scrub(err.Error()), wit)
			return r.Done()
		}
		want := firstNeeded
		for _, b := range got {
			if b.Offset != want {
				r.Violate("C17/trim/batch-inside-retention-lost", fmt.Sprintf("resuming at offset %d: got offset %d, want %d (timestamp %d > cutoff %d)", firstNeeded, b.Offset, want, ts[want], cutoff), wit)
				return r.Done()
			}
			want++
		}
		if want != int64(n) && len(got) < 100 {
			r.Violate("C17/trim/batch-inside-retention-lost", fmt.Sprintf("resuming at offset %d: stream ended at %d, %d batches were written", firstNeeded, want-1, n), wit)
		}
		r.Count("batches_after_trim_checked", int64(len(got)))
	}
	r.FP(n, now-t0, fs)
	if idx < 2 {
		r.Sample(wit)
	}
	_ = pb.Int64
	return r.Done()
}
