package coord

import (
	"context"
	"fmt"
	"os"
	"path/filepath"
	"sync"
	"sync/atomic"
	"time"

	pb "google.golang.org/protobuf/proto"

	"github.com/oxia-db/oxia/proto"

	"github.com/oxia-db/oxia/coordinator/metadata"
	"github.com/oxia-db/oxia/coordinator/model"

	"verif/lib/core"
	"verif/lib/ctl"
	rc "verif/lib/replcluster"
)

func init() {
	core.Register(&core.Part{
		Name: "C05.metafile", Prop: "C05",
		Cases: func(tier string) int { return tierN(tier, 24, 400) },
		Run:   runMetaFile,
		Rule: "the real file metadata provider (coordinator/metadata/metadata_file.go) stores 150..400 successive cluster statuses (1..40 shards, terms only growing) while 2 observers read the file through fresh providers as fast as they can; what an observer reads at an instant is what a coordinator restarted after a process crash at that instant would load; " +
			"oracle: every observation is a status that was stored (the previous or the new one: version and per-shard terms never go back from one observation to the next), never 'not initialised', never unparsable; a final reopen returns the last status; " +
			"non-trivial = >= 1000 observations that fell between two different versions; distinct = (shards, stores)",
		MinNontrivial:    func(tier string) int { return tierN(tier, 12, 200) },
		RequiredCounters: []string{"stores", "observations", "observations_of_distinct_versions"},
		CaseTimeoutS:     120,
	})
}

func runMetaFile(tier string, seed uint64, idx int) core.Result {
	r := core.NewR("C05.metafile", idx)
	rng := core.CaseSeed(seed, "C05.metafile", idx)
	dir, err := os.MkdirTemp("", "metafile-")
	if err != nil {
		r.Inconclusive(err.Error())
		return r.Done()
	}
	defer os.RemoveAll(dir)
	path := filepath.Join(dir, "cluster-status.json")
	shards := 1 + rng.IntN(40)
	stores := 150 + rng.IntN(251)

	mk := func(step int) *model.ClusterStatus {
		cs := &model.ClusterStatus{Namespaces: map[string]model.NamespaceStatus{}, ShardIdGenerator: int64(shards), ServerIdx: uint32(step)}
		ns := model.NamespaceStatus{ReplicationFactor: 3, Shards: map[int64]model.ShardMetadata{}}
		for s := 0; s < shards; s++ {
			l := ctl.Server(fmt.Sprintf("node-%d.oxia-svc.oxia.svc.cluster.local:6649", (s+step)%5))
			ns.Shards[int64(s)] = model.ShardMetadata{Status: model.ShardStatusSteadyState, Term: int64(step + s), Leader: &l,
				Ensemble:       []model.Server{l, ctl.Server("node-a.oxia-svc.oxia.svc.cluster.local:6649"), ctl.Server("node-b.oxia-svc.oxia.svc.cluster.local:6649")},
				Int32HashRange: model.Int32HashRange{Min: uint32(s) * 100, Max: uint32(s)*100 + 99}}
		}
		cs.Namespaces["default"] = ns
		return cs
	}

	w := metadata.NewMetadataProviderFile(path)
	v, err := w.Store(mk(0), metadata.NotExists)
	if err != nil {
		r.Inconclusive("first store: " + err.Error())
		return r.Done()
	}
	var stop atomic.Bool
	var wg sync.WaitGroup
	for o := 0; o < 2; o++ {
		wg.Add(1)
		go func() {
			defer wg.Done()
			lastStep := int64(-1)
			for !stop.Load() {
				p := metadata.NewMetadataProviderFile(path)
				cs, ver, err := p.Get()
				r.Count("observations", 1)
				switch {
				case err != nil:
					r.Violate("C05/metadata-file-torn/unreadable", "a restart at this instant could not load the cluster status: "+err.Error(), nil)
					return
				case cs == nil || ver == metadata.NotExists:
					r.Violate("C05/metadata-file-torn/reads-as-not-initialised", fmt.Sprintf("after step %d was stored, the file reads as empty: a coordinator restarted now re-initialises the cluster (all terms start again at -1)", lastStep), nil)
					return
				}
				step := int64(cs.ServerIdx)
				if step < lastStep {
					r.Violate("C05/metadata-file-went-back", fmt.Sprintf("step %d read after step %d", step, lastStep), nil)
					return
				}
				if step != lastStep {
					r.Count("observations_of_distinct_versions", 1)
				}
				lastStep = step
				if t := cs.Namespaces["default"].Shards[0].Term; t != step {
					r.Violate("C05/metadata-file-mixed", fmt.Sprintf("step %d holds term %d for shard 0", step, t), nil)
					return
				}
			}
		}()
	}
	for i := 1; i <= stores && r.Violations() == 0; i++ {
		nv, err := w.Store(mk(i), v)
		if err != nil {
			r.Inconclusive("store: " + err.Error())
			break
		}
		v = nv
		r.Count("stores", 1)
	}
	stop.Store(true)
	wg.Wait()
	if r.Violations() == 0 {
		cs, _, err := metadata.NewMetadataProviderFile(path).Get()
		if err != nil || cs == nil || int(cs.ServerIdx) != int(r.Get("stores")) {
			r.Violate("C05/metadata-file-final", fmt.Sprintf("final reopen: %v %v", cs, err), nil)
		}
	}
	r.FP(shards, stores)
	if r.Get("observations") >= 1000 {
		r.Nontrivial()
	}
	if idx < 2 {
		r.Sample(map[string]any{"shards": shards, "stores": stores, "observations": r.Get("observations")})
	}
	return r.Done()
}

// ---- a late DeleteShard of a superseded election must be refused and change nothing ----

func init() {
	core.Register(&core.Part{
		Name: "C05.latedelete", Prop: "C05",
		Cases: func(tier string) int { return tierN(tier, 6, 60) },
		Run:   runLateDelete,
		Rule: "3 real nodes, elections driven directly: terms 1..k with writes, then DeleteShard of an older term (a late request of a superseded election) is delivered to the current leader and to a current follower, once and twice, followed by DeleteShard of the current term to a node that had refused; " +
			"oracle: the stale request is refused, the leader still commits a write afterwards, the follower still receives it (head advances), their terms are unchanged, and nothing panics; non-trivial = both roles probed; distinct = (terms, writes)",
		MinNontrivial:    func(tier string) int { return tierN(tier, 3, 30) },
		RequiredCounters: []string{"stale_deletes_refused", "writes_after_stale_delete"},
		CaseTimeoutS:     60,
	})
}

func runLateDelete(tier string, seed uint64, idx int) core.Result {
	r := core.NewR("C05.latedelete", idx)
	rng := core.CaseSeed(seed, "C05.latedelete", idx)
	dir, err := os.MkdirTemp("", "latedel-")
	if err != nil {
		r.Inconclusive(err.Error())
		return r.Done()
	}
	defer os.RemoveAll(dir)
	c, err := rc.New(dir, 3, 1<<16, true)
	if err != nil {
		r.Inconclusive(err.Error())
		return r.Done()
	}
	defer c.Close()
	terms := 2 + rng.IntN(3)
	leader := ""
	write := func(n int) bool {
		lc, err := c.Node(leader).Leader()
		if err != nil {
			return false
		}
		for i := 0; i < n; i++ {
			ctx, cancel := context.WithTimeout(context.Background(), 5*time.Second)
			_, err := lc.WriteBlock(ctx, &proto.WriteRequest{Shard: pb.Int64(0), Puts: []*proto.PutRequest{{Key: fmt.Sprintf("k%d", i), Value: []byte("v")}}})
			cancel()
			if err != nil {
				return false
			}
		}
		return true
	}
	for t := int64(1); t <= int64(terms); t++ {
		heads := c.Fence(t, c.Nodes)
		if len(heads) != 3 {
			r.Inconclusive("fence failed")
			return r.Done()
		}
		best := rc.PickLeader(heads)
		leader = best[rng.IntN(len(best))]
		if err := c.Install(t, leader, 3, heads); err != nil {
			r.Inconclusive("install: " + err.Error())
			return r.Done()
		}
		if !write(1 + rng.IntN(5)) {
			r.Inconclusive("write failed")
			return r.Done()
		}
	}
	cur := int64(terms)
	follower := ""
	for _, n := range c.Nodes {
		if n.Name != leader {
			follower = n.Name
		}
	}
	probe := func(node, role string) {
		before, err := c.Node(node).GetStatus()
		if err != nil {
			r.Inconclusive("status: " + err.Error())
			return
		}
		reps := 1 + rng.IntN(2)
		for i := 0; i < reps; i++ {
			stale := int64(rng.IntN(int(cur)))
			_, err := c.Node(node).DeleteShard(&proto.DeleteShardRequest{Namespace: rc.Namespace, Shard: 0, Term: stale})
			if err == nil {
				r.Violate("C05/stale-delete-shard-accepted/"+role, fmt.Sprintf("%s (%s, term %d) executed DeleteShard of term %d", node, role, cur, stale), nil)
				return
			}
			r.Count("stale_deletes_refused", 1)
		}
		if !write(2) {
			r.Violate("C05/stale-delete-shard-disturbed-the-shard/"+role, fmt.Sprintf("after %s (%s) refused a DeleteShard of an older term, a write through the leader did not succeed", node, role), nil)
			return
		}
		r.Count("writes_after_stale_delete", 1)
		deadline := time.Now().Add(5 * time.Second)
		for {
			after, err := c.Node(node).GetStatus()
			if err == nil && after.Term == before.Term && (after.Status == before.Status || (before.Status == proto.ServingStatus_FENCED && after.Status == proto.ServingStatus_FOLLOWER)) && after.HeadOffset >= before.HeadOffset+2 {
				break
			}
			if time.Now().After(deadline) {
				r.Violate("C05/stale-delete-shard-disturbed-the-node/"+role, fmt.Sprintf("%s was %v in term %d with head %d; after refusing a stale DeleteShard and two more writes it reports %v (err %v)", node, before.Status, before.Term, before.HeadOffset, after, err), nil)
				return
			}
			time.Sleep(5 * time.Millisecond)
		}
	}
	order := []string{"follower", "leader"}
	if rng.IntN(2) == 0 {
		order = []string{"leader", "follower"}
	}
	for _, role := range order {
		if r.Violations() > 0 {
			break
		}
		if role == "leader" {
			probe(leader, role)
		} else {
			probe(follower, role)
		}
	}
	// a node that refused must still be deletable with the current term
	if r.Violations() == 0 {
		if _, err := c.Node(follower).DeleteShard(&proto.DeleteShardRequest{Namespace: rc.Namespace, Shard: 0, Term: cur}); err != nil {
			r.Violate("C05/delete-shard-after-refusal-failed", err.Error(), nil)
		}
		r.Nontrivial()
	}
	r.FP(terms, r.Get("stale_deletes_refused"))
	return r.Done()
}
