// Package coord runs the real coordinator shard controller against real storage nodes through lib/ctl:
// C05 (election safety) decided by online monitors over the recorded coordination traffic and metadata writes.
package coord

import (
	"context"
	"fmt"
	"math/rand/v2"
	"os"
	"sort"
	"strings"
	"sync"
	"sync/atomic"
	"time"

	pb "google.golang.org/protobuf/proto"

	"github.com/oxia-db/oxia/common/concurrent"
	"github.com/oxia-db/oxia/common/vhook"
	"github.com/oxia-db/oxia/coordinator/model"
	"github.com/oxia-db/oxia/proto"

	"verif/lib/core"
	"verif/lib/ctl"
	rc "verif/lib/replcluster"
)

func tierN(tier string, quick, thorough int) int {
	if tier == "thorough" {
		return thorough
	}
	return quick
}

func init() {
	core.Register(&core.Part{
		Name: "C05.elections", Prop: "C05", Race: true,
		Cases: func(tier string) int { return tierN(tier, 60, 2500) },
		Run: func(tier string, seed uint64, idx int) core.Result {
			return runElections("C05", "C05.elections", tier, seed, idx)
		},
		Rule: "the real coordinator ShardController (status resource included) over a harness-owned metadata store and coordination-RPC layer, real storage nodes (RF 3 or, one case in four, RF 5; 2 spares); seeded schedules of 10..18 steps: client writes with a stalled follower (heads differ), true and false leader-failure notifications, node swaps, process crashes/restarts of nodes (also right after a node answered NewTerm, i.e. between NewTerm and BecomeLeader), coordinator deaths at chosen points (before/after the k-th metadata write, at the send or after the execution of the k-th NewTerm/BecomeLeader/AddFollower) followed by a restart from the stored metadata, requests and responses lost or delayed per message (fault level 0..100), ghosts = exact re-deliveries of earlier requests; " +
			"online oracle, evaluated under the harness lock in record order: (durable-first) every term carried by a request is <= the term in the metadata store at send time; (no reuse) an incarnation never sends NewTerm with a term <= one sent by an earlier incarnation; stored terms never decrease; (one leader per term) BecomeLeader of a term goes to one node only, at most one node ever answers BecomeLeader OK or reports LEADER for a term, stored leader of a term is unique; (majority, best log) at BecomeLeader send: the target and every follower-map entry are members of the stored ensemble that answered NewTerm of that term to this incarnation, with exactly the heads they answered, these are a majority of the stored ensemble, and the target's (term,offset) head is >= every follower-map head; (node terms) a node never answers OK to a NewTerm below one it answered before, the term it reports never drops below one it acknowledged earlier (restarts and crash images included), and the flushed database image at a NewTerm answer already holds that term; a node answers BecomeLeader OK only in a term whose NewTerm it answered; " +
			"non-trivial = >= 3 BecomeLeader decisions checked and >= 1 coordinator death or swap; distinct = (fault level, record trace)",
		MinNontrivial:    func(tier string) int { return tierN(tier, 25, 1000) },
		RequiredCounters: []string{"become_leader_checked", "newterm_answers", "coordinator_deaths", "swaps_started", "ghosts", "stores", "status_polls", "flushed_term_probes"},
		CaseTimeoutS:     240,
		Weight:           2,
	})
}

type sent struct {
	kind, node string
	term       int64
	req        any
}

type mon struct {
	prop string
	r    *core.R
	h    *ctl.Harness

	mu              sync.Mutex
	sent            []sent
	maxTermByInc    map[int]int64
	blTarget        map[int64]string
	leaderOK        map[int64]string
	statusLeader    map[int64]string
	storedLeader    map[int64]string
	delivered       map[int]map[int64]map[string]*proto.EntryId
	newTermOK       map[string]map[int64]bool
	maxAcked        map[string]int64
	epoch           map[string]int64
	lastStoredTerm  int64
	restartAfterNT  string // node to restart right after its next NewTerm answer
	restartKind     int
	restartsAfterNT int
	silent          bool // monitors off: the engine only uses the bookkeeping (C01/C02 runs)
	// root-cause bookkeeping for C01/C02: highest commit offset any leader reported, and the first election that
	// installed a leader whose log ends below it
	maxCommit      int64
	belowCommit    string
	belowCommitSwp bool
	swapSeen       bool
	clock          *atomic.Int64 // the client history's logical clock (C01/C02 runs)
	belowCommitAt  int64         // tick of the latest such election during or after a swap
}

func newMon(prop string, r *core.R, h *ctl.Harness) *mon {
	return &mon{prop: prop, r: r, h: h, maxTermByInc: map[int]int64{}, blTarget: map[int64]string{}, leaderOK: map[int64]string{},
		maxCommit: -1, statusLeader: map[int64]string{}, storedLeader: map[int64]string{}, delivered: map[int]map[int64]map[string]*proto.EntryId{},
		newTermOK: map[string]map[int64]bool{}, maxAcked: map[string]int64{}, epoch: map[string]int64{}, lastStoredTerm: -1}
}

func (m *mon) viol(sig, detail string) {
	if m.silent {
		return
	}
	m.r.Violate(m.prop+"/"+sig, detail, map[string]any{"trace": m.h.Tail(60)})
}

// rootCauseFor is rootCause restricted to what that event can explain: the loss of something acknowledged before it.
func (m *mon) rootCauseFor(ackedAt int64) (label, detail string) {
	m.mu.Lock()
	at := m.belowCommitAt
	m.mu.Unlock()
	if at == 0 || ackedAt >= at {
		return "", ""
	}
	return m.rootCause()
}

// rootCause labels a client-level violation with the election-level event that explains it, if there was one.
func (m *mon) rootCause() (label, detail string) {
	m.mu.Lock()
	defer m.mu.Unlock()
	if m.belowCommit == "" {
		return "", ""
	}
	if m.belowCommitSwp {
		return "/after-a-leader-was-installed-below-the-commit-offset-during-or-after-a-node-swap", m.belowCommit
	}
	return "/after-a-leader-was-installed-below-the-commit-offset", m.belowCommit
}

func cmpHead(a, b *proto.EntryId) int {
	switch {
	case a.Term != b.Term:
		if a.Term < b.Term {
			return -1
		}
		return 1
	case a.Offset != b.Offset:
		if a.Offset < b.Offset {
			return -1
		}
		return 1
	}
	return 0
}

func inList(l []model.Server, name string) bool {
	for _, s := range l {
		if s.GetIdentifier() == name {
			return true
		}
	}
	return false
}

// observe runs under the harness lock, in record order. Tail() must not be called from here (it takes the lock);
// violations are therefore collected and raised with a trace copied from the records passed so far.
func (m *mon) observe(h *ctl.Harness, r ctl.Rec, payload any) {
	m.mu.Lock()
	defer m.mu.Unlock()
	bad := func(sig, detail string) {
		if m.silent {
			return
		}
		m.r.Violate(m.prop+"/"+sig, detail+" @ "+r.String(), nil)
	}
	switch r.Phase {
	case "send":
		if r.Kind == "GetStatus" || r.Inc == 0 {
			return
		}
		m.sent = append(m.sent, sent{r.Kind, r.Node, r.Term, payload})
		d := h.DurableLocked()
		if r.Term > d.Term {
			bad("term-sent-before-durable/"+r.Kind, fmt.Sprintf("%s carries term %d while the metadata store holds term %d", r.Kind, r.Term, d.Term))
		}
		if r.Kind == "NewTerm" {
			for inc, mt := range m.maxTermByInc {
				if inc < r.Inc && mt >= r.Term {
					bad("term-reused-after-coordinator-restart", fmt.Sprintf("incarnation %d sends NewTerm(%d); incarnation %d had already sent term %d", r.Inc, r.Term, inc, mt))
				}
			}
		}
		if mt, ok := m.maxTermByInc[r.Inc]; !ok || r.Term > mt {
			m.maxTermByInc[r.Inc] = r.Term
		}
		if r.Kind == "BecomeLeader" {
			m.r.Count("become_leader_checked", 1)
			req := payload.(*proto.BecomeLeaderRequest)
			if prev, ok := m.blTarget[r.Term]; ok && prev != r.Node {
				bad("two-leaders-chosen-in-one-term", fmt.Sprintf("BecomeLeader(%d) sent to %s after %s", r.Term, r.Node, prev))
			}
			m.blTarget[r.Term] = r.Node
			del := m.delivered[r.Inc][r.Term]
			fencedMembers := 0
			for n := range del {
				if inList(d.Ensemble, n) {
					fencedMembers++
				}
			}
			if fencedMembers < len(d.Ensemble)/2+1 {
				// which rule was broken: the coordinator counts its majority over ensemble + nodes being removed
				cause := "fewer-answers-than-any-majority"
				removedAnswered := 0
				for n := range del {
					if inList(d.RemovedNodes, n) {
						removedAnswered++
					}
				}
				if fencedMembers+removedAnswered >= (len(d.Ensemble)+len(d.RemovedNodes))/2+1 {
					cause = fmt.Sprintf("%d-removed-nodes-counted-toward-the-majority", len(d.RemovedNodes))
				}
				bad("leader-installed-without-fenced-majority-of-ensemble/"+cause, fmt.Sprintf("ensemble %v, members that answered NewTerm(%d): %d (answers: %v)", ctl.Names(d.Ensemble), r.Term, fencedMembers, ctl.SortedKeys(del)))
			}
			if !inList(d.Ensemble, r.Node) {
				bad("leader-not-in-ensemble", fmt.Sprintf("leader %s, ensemble %v, removed %v", r.Node, ctl.Names(d.Ensemble), ctl.Names(d.RemovedNodes)))
			}
			lh, ok := del[r.Node]
			if ok && lh.Offset < m.maxCommit && m.swapSeen && m.clock != nil {
				m.belowCommitAt = m.clock.Add(1)
			}
			if ok && lh.Offset < m.maxCommit && m.belowCommit == "" {
				m.belowCommit = fmt.Sprintf("BecomeLeader(%d) to %s whose log ends at (%d,%d) while a leader had reported commit offset %d; ensemble %v removed %v answers %v",
					r.Term, r.Node, lh.Term, lh.Offset, m.maxCommit, ctl.Names(d.Ensemble), ctl.Names(d.RemovedNodes), ctl.SortedKeys(del))
				m.belowCommitSwp = m.swapSeen
			}
			if !ok {
				bad("leader-was-not-fenced", fmt.Sprintf("leader %s did not answer NewTerm(%d) to this incarnation", r.Node, r.Term))
			}
			if int(req.ReplicationFactor) != len(d.Ensemble) {
				bad("replication-factor-differs-from-ensemble", fmt.Sprintf("rf %d, ensemble %v", req.ReplicationFactor, ctl.Names(d.Ensemble)))
			}
			for f, fh := range req.FollowerMaps {
				if !inList(d.Ensemble, f) {
					bad("follower-not-in-ensemble", fmt.Sprintf("follower %s, ensemble %v, removed %v", f, ctl.Names(d.Ensemble), ctl.Names(d.RemovedNodes)))
				}
				dh, okf := del[f]
				if !okf {
					bad("follower-was-not-fenced", fmt.Sprintf("follower %s did not answer NewTerm(%d)", f, r.Term))
				} else if cmpHead(dh, fh) != 0 {
					bad("follower-head-differs-from-answer", fmt.Sprintf("follower %s answered %v, request says %v", f, dh, fh))
				}
				if ok && cmpHead(lh, fh) < 0 {
					bad("leader-head-not-maximal", fmt.Sprintf("leader %s head (%d,%d) < follower %s head (%d,%d)", r.Node, lh.Term, lh.Offset, f, fh.Term, fh.Offset))
				}
			}
		}
	case "begin":
		if r.Kind == "DeleteShard" {
			m.epoch[r.Node]++
		}
	case "recv":
		if r.Kind == "NewTerm" && r.OK && r.Inc > 0 {
			if m.delivered[r.Inc] == nil {
				m.delivered[r.Inc] = map[int64]map[string]*proto.EntryId{}
			}
			if m.delivered[r.Inc][r.Term] == nil {
				m.delivered[r.Inc][r.Term] = map[string]*proto.EntryId{}
			}
			m.delivered[r.Inc][r.Term][r.Node] = payload.(*proto.NewTermResponse).HeadEntryId
			m.r.Count("newterm_answers", 1)
		}
	case "exec":
		switch {
		case r.Kind == "NewTerm" && r.OK:
			if prev, ok := m.maxAcked[r.Node]; ok && r.Term < prev {
				bad("node-accepted-lower-term", fmt.Sprintf("%s answered NewTerm(%d) OK after NewTerm(%d)", r.Node, r.Term, prev))
			}
			if r.Term > m.maxAcked[r.Node] || m.maxAcked[r.Node] == 0 {
				m.maxAcked[r.Node] = r.Term
			}
			if m.newTermOK[r.Node] == nil {
				m.newTermOK[r.Node] = map[int64]bool{}
			}
			m.newTermOK[r.Node][r.Term] = true
		case r.Kind == "BecomeLeader" && r.OK:
			m.r.Count("become_leader_ok", 1)
			if prev, ok := m.leaderOK[r.Term]; ok && prev != r.Node {
				bad("two-nodes-became-leader-in-one-term", fmt.Sprintf("%s and %s both answered BecomeLeader(%d) OK", prev, r.Node, r.Term))
			}
			m.leaderOK[r.Term] = r.Node
			if !m.newTermOK[r.Node][r.Term] {
				bad("became-leader-without-newterm-of-that-term", fmt.Sprintf("%s answered BecomeLeader(%d) OK but never NewTerm(%d)", r.Node, r.Term, r.Term))
			}
		case r.Kind == "DeleteShard" && r.OK:
			delete(m.maxAcked, r.Node)
			delete(m.newTermOK, r.Node)
			m.epoch[r.Node]++
		}
	case "store":
		if !r.OK {
			m.r.Count("stores_failed", 1)
			return
		}
		m.r.Count("stores", 1)
		sm := payload.(model.ShardMetadata)
		if sm.Term < m.lastStoredTerm {
			bad("stored-term-decreased", fmt.Sprintf("stored term %d after %d", sm.Term, m.lastStoredTerm))
		}
		m.lastStoredTerm = sm.Term
		if sm.Leader != nil {
			l := sm.Leader.GetIdentifier()
			if prev, ok := m.storedLeader[sm.Term]; ok && prev != l {
				bad("two-leaders-stored-for-one-term", fmt.Sprintf("term %d: %s then %s", sm.Term, prev, l))
			}
			m.storedLeader[sm.Term] = l
			if !inList(sm.Ensemble, l) {
				bad("stored-leader-not-in-ensemble", fmt.Sprintf("leader %s ensemble %v", l, ctl.Names(sm.Ensemble)))
			}
		}
	}
}

// poll reads every node's status once and checks it.
func (m *mon) poll() {
	for _, n := range m.h.C.Nodes {
		m.mu.Lock()
		ackedBefore, had := m.maxAcked[n.Name]
		ep := m.epoch[n.Name]
		m.mu.Unlock()
		st, err := n.GetStatus()
		if err != nil {
			continue
		}
		m.r.Count("status_polls", 1)
		m.mu.Lock()
		if had && m.epoch[n.Name] == ep && st.Term < ackedBefore && !m.silent {
			// the term lives in the database, which a snapshot install wipes first: a node that restarts in the
			// middle of one comes back without its term (known finding); anything else is reported plainly
			cause := ""
			open := false
			for _, e := range m.h.C.Events() {
				if e.Node != n.Name {
					continue
				}
				switch e.Kind {
				case "snapshot-open":
					open = true
				case "snapshot-closed":
					if e.Note == "<nil>" {
						open = false
					}
				}
			}
			if open {
				cause = "/after-an-interrupted-snapshot-install"
			}
			m.r.Violate(m.prop+"/node-term-went-backwards"+cause, fmt.Sprintf("%s reports term %d after having answered NewTerm(%d)", n.Name, st.Term, ackedBefore), nil)
		}
		if st.Status == proto.ServingStatus_LEADER && st.CommitOffset > m.maxCommit {
			m.maxCommit = st.CommitOffset
		}
		if st.Status == proto.ServingStatus_LEADER {
			if prev, ok := m.statusLeader[st.Term]; ok && prev != n.Name && !m.silent {
				m.r.Violate(m.prop+"/two-nodes-report-leader-in-one-term", fmt.Sprintf("%s and %s both report LEADER in term %d", prev, n.Name, st.Term), nil)
			}
			m.statusLeader[st.Term] = n.Name
		}
		m.mu.Unlock()
	}
}

// afterExec runs in the RPC goroutine after a node executed a request, before the answer travels back.
func (m *mon) afterExec(kind, node string, req any, res any, err error) {
	if kind != "NewTerm" || err != nil {
		return
	}
	term := req.(*proto.NewTermRequest).Term
	n := m.h.C.Node(node)
	if !m.silent {
		if ft, ok := n.FlushedTerm(); ok {
			m.r.Count("flushed_term_probes", 1)
			if ft < term {
				m.viol("term-not-durable-when-answered", fmt.Sprintf("%s answered NewTerm(%d) but a crash image of its database holds term %d", node, term, ft))
			}
		}
	}
	m.mu.Lock()
	doRestart := m.restartAfterNT == node
	kindR := m.restartKind
	if doRestart {
		m.restartAfterNT = ""
		m.restartsAfterNT++
	}
	m.mu.Unlock()
	if doRestart {
		if kindR == 0 {
			_ = n.Restart()
		} else {
			_ = n.Crash()
		}
		m.h.Note("node %s restarted (kind %d) right after answering NewTerm(%d)", node, kindR, term)
		m.r.Count("node_restarts_between_newterm_and_becomeleader", 1)
	}
}

type sched struct {
	prop        string
	r           *core.R
	rng         *rand.Rand
	c           *rc.Cluster
	h           *ctl.Harness
	m           *mon
	inc         *ctl.Incarnation
	swapBusy    atomic.Bool
	swapGen     atomic.Int64
	over        atomic.Bool
	level       int
	reported    map[string]bool
	ownWrites   bool
	removedEver map[string]bool
	writeSeq    int64
	acked       map[string]string
	ackMu       sync.Mutex
}

func (s *sched) waitSteady(d time.Duration) bool {
	deadline := time.Now().Add(d)
	for time.Now().Before(deadline) {
		if s.inc.SC.Status() == model.ShardStatusSteadyState && s.inc.SC.Leader() != nil {
			return true
		}
		time.Sleep(2 * time.Millisecond)
	}
	return false
}

// healthCheck plays the coordinator's node health checker once: a recorded leader that does not lead is reported.
func (s *sched) healthCheck() {
	if s.inc.SC.Status() != model.ShardStatusSteadyState {
		return
	}
	l := s.inc.SC.Leader()
	if l == nil {
		return
	}
	st, err := s.c.Node(l.GetIdentifier()).GetStatus()
	if err != nil || st.Status != proto.ServingStatus_LEADER {
		key := fmt.Sprintf("%d/%s/%d", s.inc.ID, l.GetIdentifier(), s.inc.SC.Term())
		if s.reported == nil {
			s.reported = map[string]bool{}
		}
		if s.reported[key] {
			return
		}
		s.reported[key] = true
		s.h.Note("health check: recorded leader %s does not lead", l.GetIdentifier())
		sc, srv := s.inc.SC, *l
		go sc.NodeBecameUnavailable(srv) // the controller's queue may be busy (e.g. inside a swap)
		time.Sleep(50 * time.Millisecond)
	}
}

func (s *sched) leaderName() string {
	d := s.h.Durable()
	if d.Leader == nil || d.Status != model.ShardStatusSteadyState {
		return ""
	}
	return d.Leader.GetIdentifier()
}

func (s *sched) write(n int) {
	ln := s.leaderName()
	if ln == "" {
		return
	}
	lc, err := s.c.Node(ln).Leader()
	if err != nil {
		return
	}
	for i := 0; i < n; i++ {
		s.writeSeq++
		key := fmt.Sprintf("k%d", s.writeSeq%13)
		val := fmt.Sprintf("v%d", s.writeSeq)
		done := make(chan struct{})
		lc.Write(context.Background(), &proto.WriteRequest{Shard: pb.Int64(0), Puts: []*proto.PutRequest{{Key: key, Value: []byte(val)}}},
			concurrent.NewOnce(func(resp *proto.WriteResponse) {
				if len(resp.Puts) == 1 && resp.Puts[0].Status == proto.Status_OK {
					s.ackMu.Lock()
					s.acked[key] = val
					s.ackMu.Unlock()
					s.r.Count("writes_acked", 1)
				}
				close(done)
			}, func(error) { close(done) }))
		select {
		case <-done:
		case <-time.After(200 * time.Millisecond):
			s.r.Count("writes_pending", 1)
			return
		}
	}
}

func (s *sched) restartCoordinator() {
	old := s.inc
	s.h.DisarmCrash()
	s.h.Kill()
	s.h.Abandon(old)
	s.swapGen.Add(1)
	s.swapBusy.Store(false)
	s.inc = s.h.Start()
	s.r.Count("coordinator_restarts", 1)
}

func (s *sched) triggerElection() {
	d := s.h.Durable()
	if d.Leader != nil {
		s.inc.SC.NodeBecameUnavailable(*d.Leader)
		return
	}
	// no leader on record: only a swap or a coordinator restart starts an election
	s.swap()
}

func (s *sched) swap() bool {
	if s.swapBusy.Load() {
		return false
	}
	d := s.h.Durable()
	var outs []string
	for _, n := range s.c.Nodes {
		if !inList(d.Ensemble, n.Name) && !inList(d.RemovedNodes, n.Name) {
			outs = append(outs, n.Name)
		}
	}
	if len(outs) == 0 || len(d.Ensemble) == 0 {
		return false
	}
	from := d.Ensemble[s.rng.IntN(len(d.Ensemble))]
	to := ctl.Server(outs[s.rng.IntN(len(outs))])
	s.swapBusy.Store(true)
	s.removedEver[from.GetIdentifier()] = true
	s.r.Count("swaps_started", 1)
	s.m.mu.Lock()
	s.m.swapSeen = true
	s.m.mu.Unlock()
	s.h.Note("swap %s -> %s", from.GetIdentifier(), to.GetIdentifier())
	inc := s.inc
	gen := s.swapGen.Add(1)
	go func() {
		err := inc.SC.SwapNode(from, to)
		if s.swapGen.Load() == gen {
			s.swapBusy.Store(false)
		}
		if s.over.Load() {
			return
		}
		if err == nil {
			s.r.Count("swaps_completed", 1)
		} else {
			s.r.Count("swaps_failed", 1)
		}
	}()
	return true
}

func (s *sched) waitSwap(d time.Duration) {
	deadline := time.Now().Add(d)
	for s.swapBusy.Load() && time.Now().Before(deadline) {
		time.Sleep(2 * time.Millisecond)
	}
}

// newSched builds the cluster (5 nodes, RF 3), the harness, the monitors and the status poller.
func newSched(prop string, r *core.R, rng *rand.Rand, silentMon bool) (*sched, func(), error) {
	dir, err := os.MkdirTemp("", "coord-")
	if err != nil {
		return nil, nil, err
	}
	// RF 3 with 2 spare nodes; one case in four RF 5 with 2 spares
	rf := 3
	if rng.IntN(4) == 0 {
		rf = 5
	}
	c, err := rc.New(dir, rf+2, 1<<16, true)
	if err != nil {
		os.RemoveAll(dir)
		return nil, nil, err
	}
	h := ctl.New(c, rf, rng.Uint64())
	m := newMon(prop, r, h)
	m.silent = silentMon
	h.Observe(m.observe)
	h.AfterExec = m.afterExec
	// every advance of a leader's commit offset, at the moment it happens (status polls lag by up to a millisecond
	// and a fenced ex-leader no longer reports it). Reading the databases instead is not an option: a read that
	// races with a close panics inside Pebble with its locks held.
	vhook.Clear()
	vhook.Set("qat.commit", func(_ string, args ...any) {
		if len(args) >= 2 {
			if v, ok := args[1].(int64); ok {
				m.mu.Lock()
				if v > m.maxCommit {
					m.maxCommit = v
				}
				m.mu.Unlock()
			}
		}
	})
	s := &sched{prop: prop, r: r, rng: rng, c: c, h: h, m: m, removedEver: map[string]bool{}, acked: map[string]string{}}
	s.level = []int{0, 20, 50, 100}[rng.IntN(4)]
	h.SetFaultLevel(s.level)
	stopPoll := make(chan struct{})
	var pollWG sync.WaitGroup
	pollWG.Add(1)
	go func() {
		defer pollWG.Done()
		for {
			select {
			case <-stopPoll:
				return
			default:
			}
			m.poll()
			time.Sleep(time.Millisecond)
		}
	}()
	s.inc = h.Start()
	cleanup := func() {
		vhook.Clear()
		s.over.Store(true)
		h.CloseAll()
		close(stopPoll)
		pollWG.Wait()
		c.Close()
		os.RemoveAll(dir)
	}
	return s, cleanup, nil
}

// step performs one random nemesis/coordination step.
func (s *sched) step(ghosts bool) {
	rng, c, h, r, m := s.rng, s.c, s.h, s.r, s.m
	switch p := rng.IntN(100); {
	case p < 3:
		// the coordinator's config-change path: a status is loaded with its version, an election stores a newer
		// one meanwhile, then the stale status is swapped in. The swap must be refused: the stored term may not
		// go backwards (the store records are judged by the monitor)
		st, ver := s.inc.SR.LoadWithVersion()
		stale := st.Clone()
		s.triggerElection()
		s.waitSteady(time.Duration(200+rng.IntN(600)) * time.Millisecond)
		if !s.inc.Dead() {
			r.Count("stale_status_swaps_attempted", 1)
			if s.inc.SR.Swap(stale, ver) {
				r.Count("status_swaps_accepted", 1)
			}
			h.Note("status loaded before an election swapped in afterwards")
		}
	case p < 18:
		// writes, possibly with one follower not receiving them: heads differ at the next election
		if ln := s.leaderName(); ln != "" && rng.IntN(2) == 0 {
			d := h.Durable()
			f := d.Ensemble[rng.IntN(len(d.Ensemble))].GetIdentifier()
			if f != ln {
				c.Link(ln, f).SetStalled(true)
				h.Note("stall %s>%s", ln, f)
			}
		}
		if s.ownWrites {
			s.write(1 + rng.IntN(8))
		} else {
			time.Sleep(time.Duration(rng.IntN(60)) * time.Millisecond)
		}
	case p < 30:
		// the leader really fails
		if ln := s.leaderName(); ln != "" {
			if rng.IntN(2) == 0 {
				_ = c.Node(ln).Restart()
				h.Note("leader %s restarted", ln)
			} else {
				_ = c.Node(ln).Crash()
				h.Note("leader %s crashed", ln)
			}
			r.Count("leader_failures", 1)
			s.inc.SC.NodeBecameUnavailable(ctl.Server(ln))
			s.waitSteady(time.Duration(200+rng.IntN(800)) * time.Millisecond)
		}
	case p < 40:
		// a false alarm: the leader is declared failed while it keeps serving
		if ln := s.leaderName(); ln != "" {
			h.Note("false failure notification for %s", ln)
			r.Count("false_failures", 1)
			s.inc.SC.NodeBecameUnavailable(ctl.Server(ln))
			if s.ownWrites && rng.IntN(2) == 0 {
				s.write(1 + rng.IntN(4))
			}
			s.waitSteady(time.Duration(100+rng.IntN(500)) * time.Millisecond)
		}
	case p < 48:
		// some node restarts or crashes
		n := c.Nodes[rng.IntN(len(c.Nodes))]
		if rng.IntN(2) == 0 {
			_ = n.Restart()
			h.Note("node %s restarted", n.Name)
		} else {
			_ = n.Crash()
			h.Note("node %s crashed", n.Name)
		}
		r.Count("node_restarts", 1)
	case p < 60:
		if s.swap() {
			s.waitSwap(time.Duration(rng.IntN(1500)) * time.Millisecond)
		}
	case p < 76:
		// the coordinator dies at a chosen point of an election and is restarted from the stored metadata
		cps := []ctl.CrashPoint{
			{Phase: "store-before"}, {Phase: "store-after"},
			{Phase: "send", Kind: "NewTerm"}, {Phase: "exec", Kind: "NewTerm"},
			{Phase: "send", Kind: "BecomeLeader"}, {Phase: "exec", Kind: "BecomeLeader"},
			{Phase: "send", Kind: "AddFollower"}, {Phase: "exec", Kind: "DeleteShard"},
		}
		cp := cps[rng.IntN(len(cps))]
		cp.Count = 1 + rng.IntN(3)
		h.ArmCrash(cp)
		h.Note("armed coordinator death at %s %s #%d", cp.Phase, cp.Kind, cp.Count)
		if rng.IntN(3) == 0 {
			if !s.swap() {
				s.triggerElection()
			}
		} else {
			s.triggerElection()
		}
		select {
		case <-h.CrashFired:
			r.Count("coordinator_deaths_at_"+cp.Phase, 1)
		case <-time.After(1500 * time.Millisecond):
			r.Count("coordinator_deaths_plain", 1)
		}
		r.Count("coordinator_deaths", 1)
		time.Sleep(time.Duration(rng.IntN(20)) * time.Millisecond)
		s.restartCoordinator()
		s.waitSteady(time.Duration(200+rng.IntN(1500)) * time.Millisecond)
	case p < 86:
		if !ghosts {
			time.Sleep(time.Duration(rng.IntN(100)) * time.Millisecond)
			return
		}
		// a ghost: an earlier request arrives (again) at its node
		m.mu.Lock()
		var cand []sent
		for _, x := range m.sent {
			// a node that was removed once may have been deleted: its acknowledged terms are gone with it, so only
			// DeleteShard itself is re-delivered to such nodes (a late duplicate must be refused by a node that has
			// been fenced in a newer term since, and must not disturb it)
			if !s.removedEver[x.node] || x.kind == "DeleteShard" {
				cand = append(cand, x)
			}
		}
		m.mu.Unlock()
		if len(cand) > 0 {
			// prefer recent ones half of the time
			x := cand[rng.IntN(len(cand))]
			if rng.IntN(2) == 0 && len(cand) > 6 {
				x = cand[len(cand)-1-rng.IntN(6)]
			}
			err := h.Ghost(x.kind, x.node, x.req)
			r.Count("ghosts", 1)
			if err == nil {
				r.Count("ghosts_accepted", 1)
			}
		}
	case p < 93:
		// a node restarts between its NewTerm answer and BecomeLeader
		d := h.Durable()
		if len(d.Ensemble) > 0 {
			m.mu.Lock()
			m.restartAfterNT = d.Ensemble[rng.IntN(len(d.Ensemble))].GetIdentifier()
			m.restartKind = rng.IntN(2)
			m.mu.Unlock()
			s.triggerElection()
			s.waitSteady(time.Duration(300+rng.IntN(1000)) * time.Millisecond)
			m.mu.Lock()
			m.restartAfterNT = ""
			m.mu.Unlock()
		}
	case p < 96 && !s.ownWrites:
		// the leader keeps an unreplicated tail (its followers hear nothing), is declared failed while it is up, and
		// (having the longest log) is the natural winner of that election; a little later it really fails and the
		// links heal. Whatever it served in between must not be rolled back by the next leader.
		if ln := s.leaderName(); ln != "" {
			for _, n := range c.Nodes {
				if n.Name != ln {
					c.Link(ln, n.Name).SetStalled(true)
				}
			}
			h.Note("leader %s isolated from its followers (keeps taking writes)", ln)
			time.Sleep(time.Duration(20+rng.IntN(80)) * time.Millisecond)
			s.inc.SC.NodeBecameUnavailable(ctl.Server(ln))
			time.Sleep(time.Duration(150+rng.IntN(300)) * time.Millisecond)
			// it stays down for the next election: the others carry on without its tail
			c.Node(ln).Stop()
			s.unstallAll()
			h.Note("leader %s is down, links healed", ln)
			r.Count("leaders_reelected_with_a_tail_then_failed", 1)
			s.inc.SC.NodeBecameUnavailable(ctl.Server(ln))
			s.waitSteady(time.Duration(500+rng.IntN(1000)) * time.Millisecond)
			time.Sleep(time.Duration(rng.IntN(100)) * time.Millisecond)
			_ = c.Node(ln).Restart()
			h.Note("node %s is back", ln)
		}
	default:
		s.level = []int{0, 20, 50, 100}[rng.IntN(4)]
		h.SetFaultLevel(s.level)
		s.unstallAll()
		h.Note("fault level %d, links unstalled", s.level)
	}
}

func (s *sched) unstallAll() {
	for _, a := range s.c.Nodes {
		for _, b := range s.c.Nodes {
			s.c.Link(a.Name, b.Name).SetStalled(false)
		}
	}
}

// settle stops the faults and waits (bounded) for a leader; it restarts the coordinator once if none appears.
func (s *sched) settle() bool {
	s.h.SetFaultLevel(0)
	s.h.DisarmCrash()
	s.unstallAll()
	s.waitSwap(3 * time.Second)
	s.healthCheck()
	if s.waitSteady(3 * time.Second) {
		s.healthCheck()
		if s.waitSteady(3 * time.Second) {
			return true
		}
	}
	s.restartCoordinator()
	return s.waitSteady(10 * time.Second)
}

func runElections(prop, part, tier string, seed uint64, idx int) core.Result {
	r := core.NewR(part, idx)
	rng := core.CaseSeed(seed, part, idx)
	s, cleanup, err := newSched(prop, r, rng, false)
	if err != nil {
		r.Inconclusive(err.Error())
		return r.Done()
	}
	defer cleanup()
	s.ownWrites = true
	h, m := s.h, s.m
	s.waitSteady(5 * time.Second)

	steps := 10 + rng.IntN(9)
	for i := 0; i < steps && r.Violations() == 0; i++ {
		s.step(true)
	}
	// calm down and let the shard settle: bounded, and not part of the verdict
	if r.Violations() == 0 {
		if s.settle() {
			r.Count("final_steady", 1)
		} else {
			r.Count("final_not_steady", 1)
		}
		m.poll()
	}
	s.over.Store(true)
	recs := h.Records()
	var tr []string
	for _, x := range recs {
		if x.Kind == "GetStatus" {
			continue
		}
		tr = append(tr, fmt.Sprintf("%s %s %s %d %v", x.Phase, x.Kind, x.Node, x.Term, x.OK))
	}
	r.FP(s.level, strings.Join(tr, ";"))
	m.mu.Lock()
	terms := len(m.blTarget)
	m.mu.Unlock()
	r.Max("max:terms_with_a_leader_decision", int64(terms))
	if r.Get("become_leader_checked") >= 3 && (r.Get("coordinator_deaths") >= 1 || r.Get("swaps_started") >= 1) {
		r.Nontrivial()
	}
	if idx < 2 {
		var sample []string
		for _, x := range recs {
			if x.Kind != "GetStatus" && len(sample) < 40 {
				sample = append(sample, x.String())
			}
		}
		r.Sample(map[string]any{"fault_level": s.level, "records": len(recs), "first_records": sample})
	}
	if r.Violations() > 0 {
		// attach the full trace to the evidence of the first violation
		r.AttachWitness(map[string]any{"trace": tailNoStatus(recs, 120)})
	}
	return r.Done()
}

func tailNoStatus(recs []ctl.Rec, n int) []string {
	var out []string
	for _, x := range recs {
		if x.Kind != "GetStatus" {
			out = append(out, x.String())
		}
	}
	if len(out) > n {
		out = out[len(out)-n:]
	}
	return out
}

var _ = sort.Strings
