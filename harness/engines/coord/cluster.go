package coord

import (
	"context"
	"fmt"
	"sort"
	"strings"
	"sync"
	"sync/atomic"
	"time"

	"github.com/anishathalye/porcupine"
	pb "google.golang.org/protobuf/proto"

	"github.com/oxia-db/oxia/common/concurrent"
	"github.com/oxia-db/oxia/coordinator/model"
	"github.com/oxia-db/oxia/proto"
	"github.com/oxia-db/oxia/server"

	"verif/lib/core"
)

// C01 (acknowledged writes survive) and C02 (linearizable, no rolled-back reads): clients talk to whichever node the
// stored shard metadata names as leader (a cached, possibly stale assignment, like a real client) while the C05
// schedule (real coordinator, crashes, swaps, message loss) runs; every call is recorded at the client boundary.

func init() {
	core.Register(&core.Part{
		Name: "C01.cluster", Prop: "C01", Race: true,
		Cases: func(tier string) int { return tierN(tier, 50, 1200) },
		Run: func(tier string, seed uint64, idx int) core.Result {
			return runCluster("C01", "C01.cluster", tier, seed, idx)
		},
		Rule: "4 clients (puts with unique values, deletes, a few delete-ranges over 8 keys) against real nodes (RF 3, sometimes 5; 2 spares) under the real coordinator ShardController while 8..14 nemesis steps run (leader crash/restart with and without notification, node crashes to the flushed database image, stalled followers, node swaps, coordinator deaths and restarts, lost/delayed coordination messages); at the end faults stop, a leader is awaited (bounded; none => inconclusive) and every key is read from it; " +
			"oracle per key, from call/return ticks of one logical clock: the final value must not come from a write that had returned before an acknowledged write or delete of that key was invoked; an absent key is legal only if some delete could be ordered after every acknowledged put; a final value nobody wrote is a violation; the same check is made on every later leader's first read of a key (on-line, after each election); " +
			"non-trivial = >= 2 leaders served acknowledged writes and >= 30 acknowledged writes; distinct = (fault level, history hash)",
		MinNontrivial:    func(tier string) int { return tierN(tier, 20, 480) },
		RequiredCounters: []string{"acked_writes", "final_keys_checked", "leaders_that_acked", "swaps_started", "coordinator_deaths", "leader_failures"},
		CaseTimeoutS:     240,
		Weight:           2,
	})
	core.Register(&core.Part{
		Name: "C02.history", Prop: "C02", Race: true,
		Cases: func(tier string) int { return tierN(tier, 50, 1200) },
		Run: func(tier string, seed uint64, idx int) core.Result {
			return runCluster("C02", "C02.history", tier, seed, idx)
		},
		Rule: "5 clients (put, conditional put on the version last seen, delete, get; 6 keys; unique values) under the same nemesis as C01; each operation is recorded at the client boundary with call/return ticks of one logical clock, the serving node and its term; an operation that failed or timed out stays open until the end of the history (it may take effect later, once, or never) and retires its client id; " +
			"oracle: porcupine (per-key partitions) against a register model: put/conditional put/delete take effect atomically, a get served in term t while no higher term had been stored by the coordinator when it returned must return the latest value, a get served by a node whose term had already been superseded may return any earlier committed value of the key, never a value that was not written or not yet written; every version id is reported with one value only; final reads on the last leader close the history; checker timeout => inconclusive; " +
			"non-trivial = >= 150 completed operations, >= 2 serving leaders; distinct = history hash",
		MinNontrivial:    func(tier string) int { return tierN(tier, 20, 480) },
		RequiredCounters: []string{"ops_completed", "ops_open", "strict_reads", "partitions_checked", "serving_leaders", "coordinator_deaths"},
		CaseTimeoutS:     300,
		Weight:           2,
	})
}

type opKind int

const (
	opPut opKind = iota
	opCas
	opDel
	opGet
	opDelRange
)

type opIn struct {
	Kind      opKind
	Key       string
	Val       string // put/cas: value written
	ExpectVal string // cas: value whose version is expected ("" = must not exist)
	Stale     bool   // get: served by a node whose term was superseded when it returned
}

type opOut struct {
	Known  bool   // false: outcome unknown (error / timeout)
	OK     bool   // put/cas/del: status OK
	Val    string // get: value ("" = not found)
	Exists bool
}

type histOp struct {
	Client int
	In     opIn
	Out    opOut
	Call   int64
	Ret    int64
	Node   string
	Term   int64
	Ver    int64
}

type cluster struct {
	s            *sched
	prop         string
	clock        *atomic.Int64
	mu           sync.Mutex
	ops          []*histOp
	nextID       atomic.Int64
	valSeq       atomic.Int64
	keys         []string
	stop         atomic.Bool
	leadersAcked map[string]bool
	verVal       map[int64]string
	finalWhy     string
	readTimeout  time.Duration
}

func (cl *cluster) tick() int64 { return cl.clock.Add(1) }

// snapshot returns copies of the operations recorded so far (operations in flight are open).
func (cl *cluster) snapshot() []*histOp {
	cl.mu.Lock()
	defer cl.mu.Unlock()
	out := make([]*histOp, len(cl.ops))
	for i, o := range cl.ops {
		c := *o
		out[i] = &c
	}
	return out
}

// currentLeader is the client's view: the stored assignment.
func (cl *cluster) currentLeader() string {
	d := cl.s.h.Durable()
	if d.Leader == nil {
		return ""
	}
	return d.Leader.GetIdentifier()
}

const inf = int64(1) << 60

type callRes struct {
	resp *proto.WriteResponse
	err  error
}

func (cl *cluster) doWrite(lc server.LeaderController, req *proto.WriteRequest, timeout time.Duration) (*proto.WriteResponse, error) {
	ch := make(chan callRes, 1)
	lc.Write(context.Background(), req, concurrent.NewOnce(func(resp *proto.WriteResponse) { ch <- callRes{resp, nil} },
		func(err error) { ch <- callRes{nil, err} }))
	select {
	case x := <-ch:
		return x.resp, x.err
	case <-time.After(timeout):
		return nil, fmt.Errorf("client timeout")
	}
}

type getRes struct {
	resp *proto.GetResponse
	err  error
}

func (cl *cluster) doGet(lc server.LeaderController, key string, timeout time.Duration) (*proto.GetResponse, error) {
	ch := make(chan getRes, 1)
	ctx, cancel := context.WithTimeout(context.Background(), timeout)
	go func() {
		defer cancel()
		var first *proto.GetResponse
		done := make(chan error, 1)
		lc.Read(ctx, &proto.ReadRequest{Shard: pb.Int64(0), Gets: []*proto.GetRequest{{Key: key, IncludeValue: true}}},
			concurrent.NewStreamOnce(func(r *proto.GetResponse) error {
				if first == nil {
					first = r
				}
				return nil
			}, func(err error) { done <- err }))
		select {
		case err := <-done:
			ch <- getRes{first, err}
		case <-ctx.Done():
			ch <- getRes{nil, ctx.Err()}
		}
	}()
	x := <-ch
	if x.err == nil && x.resp == nil {
		return nil, fmt.Errorf("no response")
	}
	return x.resp, x.err
}

// client runs operations until stopped. A client whose operation stays open continues under a new id.
func (cl *cluster) client(seed uint64, mix func(rng *randSrc) opKind) {
	rng := newRandSrc(seed)
	id := int(cl.nextID.Add(1))
	lastSeen := map[string]string{} // key -> value last observed by this client
	lastVer := map[string]int64{}
	for !cl.stop.Load() {
		ln := cl.currentLeader()
		if ln == "" {
			time.Sleep(2 * time.Millisecond)
			continue
		}
		lc, err := cl.s.c.Node(ln).Leader()
		if err != nil {
			time.Sleep(2 * time.Millisecond)
			continue
		}
		key := cl.keys[rng.intn(len(cl.keys))]
		in := opIn{Kind: mix(rng), Key: key}
		h := &histOp{Client: id, Node: ln, Ret: inf}
		switch in.Kind {
		case opPut:
			in.Val = fmt.Sprintf("w%d", cl.valSeq.Add(1))
		case opCas:
			in.Val = fmt.Sprintf("w%d", cl.valSeq.Add(1))
			in.ExpectVal = lastSeen[key]
		}
		termBefore := lc.Term()
		h.In = in
		// the operation is on record (open) from the moment it is invoked: an oracle that runs while clients are
		// active must know about operations in flight
		cl.mu.Lock()
		h.Call = cl.tick()
		cl.ops = append(cl.ops, h)
		cl.mu.Unlock()
		var known, ok bool
		var val string
		var exists bool
		var ver int64 = -1
		switch in.Kind {
		case opPut, opCas:
			put := &proto.PutRequest{Key: key, Value: []byte(in.Val)}
			if in.Kind == opCas {
				if in.ExpectVal == "" {
					put.ExpectedVersionId = pb.Int64(-1)
				} else {
					put.ExpectedVersionId = pb.Int64(lastVer[key])
				}
			}
			resp, err := cl.doWrite(lc, &proto.WriteRequest{Shard: pb.Int64(0), Puts: []*proto.PutRequest{put}}, 400*time.Millisecond)
			if err == nil && len(resp.Puts) == 1 {
				switch resp.Puts[0].Status {
				case proto.Status_OK:
					known, ok = true, true
					ver = resp.Puts[0].Version.VersionId
					lastSeen[key], lastVer[key] = in.Val, ver
				case proto.Status_UNEXPECTED_VERSION_ID:
					known, ok = true, false
				}
			}
		case opDel:
			resp, err := cl.doWrite(lc, &proto.WriteRequest{Shard: pb.Int64(0), Deletes: []*proto.DeleteRequest{{Key: key}}}, 400*time.Millisecond)
			if err == nil && len(resp.Deletes) == 1 {
				switch resp.Deletes[0].Status {
				case proto.Status_OK:
					known, ok = true, true
					delete(lastSeen, key)
				case proto.Status_KEY_NOT_FOUND:
					known, ok = true, false
					delete(lastSeen, key)
				}
			}
		case opDelRange:
			// all keys: [k0, k~)
			resp, err := cl.doWrite(lc, &proto.WriteRequest{Shard: pb.Int64(0), DeleteRanges: []*proto.DeleteRangeRequest{{StartInclusive: "k", EndExclusive: "k~"}}}, 400*time.Millisecond)
			if err == nil && len(resp.DeleteRanges) == 1 && resp.DeleteRanges[0].Status == proto.Status_OK {
				known, ok = true, true
				lastSeen = map[string]string{}
			}
		case opGet:
			resp, err := cl.doGet(lc, key, 400*time.Millisecond)
			if err == nil {
				switch resp.Status {
				case proto.Status_OK:
					known, exists, val = true, true, string(resp.Value)
					ver = resp.Version.VersionId
					lastSeen[key], lastVer[key] = val, ver
				case proto.Status_KEY_NOT_FOUND:
					known = true
					delete(lastSeen, key)
				}
			}
		}
		termAfter := lc.Term()
		stale := false
		if in.Kind == opGet && known {
			// strict only if the serving term is unambiguous and still the highest stored term now
			stored := cl.s.h.Durable().Term
			if termBefore != termAfter || stored > termAfter {
				stale = true
			}
		}
		cl.mu.Lock()
		if known {
			h.Ret = cl.tick()
		}
		h.Term = termAfter
		h.Ver = ver
		h.Out = opOut{Known: known, OK: ok, Val: val, Exists: exists}
		h.In.Stale = stale
		if known && ok && in.Kind != opGet {
			cl.leadersAcked[fmt.Sprintf("%s@%d", ln, termAfter)] = true
		}
		cl.mu.Unlock()
		if !known {
			// the operation stays open: retire this client id
			id = int(cl.nextID.Add(1))
			time.Sleep(time.Duration(1+rng.intn(5)) * time.Millisecond)
		}
	}
}

// a tiny deterministic PRNG per client (splitmix64)
type randSrc struct{ x uint64 }

func newRandSrc(seed uint64) *randSrc { return &randSrc{x: seed} }
func (r *randSrc) next() uint64 {
	r.x += 0x9E3779B97F4A7C15
	z := r.x
	z = (z ^ (z >> 30)) * 0xBF58476D1CE4E5B9
	z = (z ^ (z >> 27)) * 0x94D049BB133111EB
	return z ^ (z >> 31)
}
func (r *randSrc) intn(n int) int { return int(r.next() % uint64(n)) }

// finalReads reads every key from the current leader (strict reads that close the history).
func (cl *cluster) finalReads() (map[string]*histOp, bool) {
	ln := cl.s.leaderName()
	if ln == "" {
		cl.finalWhy = "no leader on record"
		return nil, false
	}
	lc, err := cl.s.c.Node(ln).Leader()
	if err != nil {
		cl.finalWhy = "leader " + ln + ": " + err.Error()
		return nil, false
	}
	res := map[string]*histOp{}
	id := int(cl.nextID.Add(1))
	for _, k := range cl.keys {
		h := &histOp{Client: id, Node: ln, In: opIn{Kind: opGet, Key: k}, Term: lc.Term()}
		h.Call = cl.tick()
		resp, err := cl.doGet(lc, k, cl.readTimeout)
		if err != nil {
			st, _ := cl.s.c.Node(ln).GetStatus()
			cl.finalWhy = fmt.Sprintf("read via %s: %v (status %v)", ln, err, st)
			return nil, false
		}
		h.Ret = cl.tick()
		switch resp.Status {
		case proto.Status_OK:
			h.Out = opOut{Known: true, Exists: true, Val: string(resp.Value)}
			h.Ver = resp.Version.VersionId
		case proto.Status_KEY_NOT_FOUND:
			h.Out = opOut{Known: true}
			h.Ver = -1
		default:
			return nil, false
		}
		res[k] = h
		cl.mu.Lock()
		cl.ops = append(cl.ops, h)
		cl.mu.Unlock()
	}
	return res, true
}

// ---------- C01 oracle ----------

// checkDurability: the state read by `reads` (taken after every op in `ops` with Ret < reads' Call) must contain every
// acknowledged write or something ordered after it.
func (cl *cluster) checkDurability(reads map[string]*histOp, where string) {
	ops := cl.snapshot()
	byVal := map[string]*histOp{}
	for _, o := range ops {
		if o.In.Kind == opPut || o.In.Kind == opCas {
			byVal[o.In.Val] = o
		}
	}
	for _, k := range cl.keys {
		rd := reads[k]
		if rd == nil {
			continue
		}
		cl.s.r.Count("final_keys_checked", 1)
		// acknowledged mutations of this key that completed before the read began
		var acked []*histOp
		var deletes []*histOp
		for _, o := range ops {
			if o.In.Kind == opGet {
				continue
			}
			touches := o.In.Key == k || o.In.Kind == opDelRange
			if !touches {
				continue
			}
			if o.In.Kind == opDel || o.In.Kind == opDelRange {
				// a delete that reported KEY_NOT_FOUND changed nothing but proves absence at that point: treat it as a delete too
				if o.Call < rd.Ret {
					deletes = append(deletes, o)
				}
			}
			if o.Out.Known && o.Out.OK && o.Ret < rd.Call {
				acked = append(acked, o)
			}
		}
		if rd.Out.Exists {
			w := byVal[rd.Out.Val]
			if w == nil || w.In.Key != k {
				cl.s.r.Violate(cl.prop+"/value-never-written/"+where, fmt.Sprintf("key %s reads %q which no client wrote to it", k, rd.Out.Val), cl.witness(k))
				continue
			}
			for _, a := range acked {
				if w.Ret < a.Call {
					what := "put"
					if a.In.Kind == opDel || a.In.Kind == opDelRange {
						what = "delete"
					}
					lbl, why := cl.s.m.rootCauseFor(a.Ret)
					if why != "" {
						why = "[" + why + "] "
					}
					cl.s.r.Violate(cl.prop+"/acknowledged-"+what+"-lost/"+where+lbl, why+fmt.Sprintf("key %s reads %s (written via %s in term %d, returned at tick %d) although a %s acknowledged by %s in term %d was invoked later (tick %d) and nothing ordered after it is visible", k, rd.Out.Val, w.Node, w.Term, w.Ret, what, a.Node, a.Term, a.Call), cl.witness(k))
					break
				}
			}
		} else {
			for _, a := range acked {
				if a.In.Kind != opPut && a.In.Kind != opCas {
					continue
				}
				possible := false
				for _, d := range deletes {
					if !(d.Ret < a.Call) {
						possible = true
						break
					}
				}
				if !possible {
					lbl, why := cl.s.m.rootCauseFor(a.Ret)
					if why != "" {
						why = "[" + why + "] "
					}
					cl.s.r.Violate(cl.prop+"/acknowledged-put-lost/"+where+lbl, why+fmt.Sprintf("key %s is absent although put %s was acknowledged by %s in term %d (tick %d) and no delete could be ordered after it", k, a.In.Val, a.Node, a.Term, a.Ret), cl.witness(k))
					break
				}
			}
		}
	}
}

// checkAckedVersions: two acknowledged puts can never carry the same version id (one committed history assigns
// each id once); if they do, one of the two acknowledged writes is not part of the history that survived.
func (cl *cluster) checkAckedVersions() {
	ops := cl.snapshot()
	seen := map[int64]*histOp{}
	for _, o := range ops {
		if (o.In.Kind != opPut && o.In.Kind != opCas) || !o.Out.Known || !o.Out.OK || o.Ver < 0 {
			continue
		}
		if p, ok := seen[o.Ver]; ok && p.In.Val != o.In.Val {
			first := p.Ret
			if o.Ret < first {
				first = o.Ret
			}
			lbl, why := cl.s.m.rootCauseFor(first)
			if why != "" {
				why = "[" + why + "] "
			}
			cl.s.r.Violate(cl.prop+"/two-acknowledged-writes-share-a-version-id"+lbl, why+fmt.Sprintf("version id %d was acknowledged for %s=%s (via %s, term %d) and for %s=%s (via %s, term %d): one of them is not in the surviving history", o.Ver, p.In.Key, p.In.Val, p.Node, p.Term, o.In.Key, o.In.Val, o.Node, o.Term), cl.witness(o.In.Key))
			return
		}
		seen[o.Ver] = o
	}
}

func (cl *cluster) label() string {
	l, _ := cl.s.m.rootCause()
	return l
}

func (cl *cluster) why() string {
	_, d := cl.s.m.rootCause()
	if d == "" {
		return ""
	}
	return "[" + d + "] "
}

func (cl *cluster) witness(key string) map[string]any {
	var lines []string
	for _, o := range cl.snapshot() {
		if o.In.Key == key || o.In.Kind == opDelRange {
			lines = append(lines, describeOp(o))
		}
	}
	if len(lines) > 80 {
		lines = lines[len(lines)-80:]
	}
	return map[string]any{"key_history": lines, "trace": tailNoStatus(cl.s.h.Records(), 150)}
}

func describeOp(o *histOp) string {
	k := map[opKind]string{opPut: "put", opCas: "cas", opDel: "del", opGet: "get", opDelRange: "delrange"}[o.In.Kind]
	ret := fmt.Sprint(o.Ret)
	if o.Ret == inf {
		ret = "open"
	}
	s := fmt.Sprintf("c%d [%d,%s] %s %s", o.Client, o.Call, ret, k, o.In.Key)
	if o.In.Val != "" {
		s += "=" + o.In.Val
	}
	if o.In.Kind == opCas {
		s += " expect=" + o.In.ExpectVal
	}
	if o.In.Stale {
		s += " (stale-ok)"
	}
	s += fmt.Sprintf(" via %s t%d ->", o.Node, o.Term)
	switch {
	case !o.Out.Known:
		s += " ?"
	case o.In.Kind == opGet && o.Out.Exists:
		s += fmt.Sprintf(" %s v%d", o.Out.Val, o.Ver)
	case o.In.Kind == opGet:
		s += " absent"
	case o.Out.OK:
		s += fmt.Sprintf(" ok v%d", o.Ver)
	default:
		s += " refused"
	}
	return s
}

// ---------- C02 oracle ----------

type regState struct {
	Cur  string // "" = absent
	Hist string // ",v1,v2,-,..." every value the key has had, in order ("-" = absent); initial state included
}

var regModel = porcupine.Model{
	Partition: func(history []porcupine.Operation) [][]porcupine.Operation {
		m := map[string][]porcupine.Operation{}
		for _, o := range history {
			k := o.Input.(opIn).Key
			m[k] = append(m[k], o)
		}
		var ks []string
		for k := range m {
			ks = append(ks, k)
		}
		sort.Strings(ks)
		var out [][]porcupine.Operation
		for _, k := range ks {
			out = append(out, m[k])
		}
		return out
	},
	Init: func() interface{} { return regState{Cur: "", Hist: ",-"} },
	Step: func(state, input, output interface{}) (bool, interface{}) {
		st := state.(regState)
		in := input.(opIn)
		out := output.(opOut)
		set := func(v string) regState {
			h := v
			if v == "" {
				h = "-"
			}
			return regState{Cur: v, Hist: st.Hist + "," + h}
		}
		switch in.Kind {
		case opPut:
			if out.Known && !out.OK {
				return false, st // an unconditional put is never refused
			}
			return true, set(in.Val)
		case opCas:
			match := st.Cur == in.ExpectVal
			if !out.Known {
				if match {
					return true, set(in.Val)
				}
				return true, st
			}
			if out.OK != match {
				return false, st
			}
			if match {
				return true, set(in.Val)
			}
			return true, st
		case opDel:
			if !out.Known {
				return true, set("")
			}
			if out.OK != (st.Cur != "") {
				return false, st
			}
			return true, set("")
		case opGet:
			if !out.Known {
				return true, st
			}
			if in.Stale {
				want := out.Val
				if !out.Exists {
					want = "-"
				}
				return strings.Contains(st.Hist+",", ","+want+","), st
			}
			if out.Exists {
				return st.Cur == out.Val, st
			}
			return st.Cur == "", st
		}
		return false, st
	},
	Equal: func(a, b interface{}) bool { return a.(regState) == b.(regState) },
	DescribeOperation: func(input, output interface{}) string {
		return describeOp(&histOp{In: input.(opIn), Out: output.(opOut)})
	},
}

func (cl *cluster) checkLinearizable() {
	r := cl.s.r
	ops := cl.snapshot()
	// one value per version id
	for _, o := range ops {
		if !o.Out.Known || o.Ver < 0 {
			continue
		}
		v := ""
		switch {
		case o.In.Kind == opGet && o.Out.Exists:
			v = o.In.Key + "=" + o.Out.Val
		case (o.In.Kind == opPut || o.In.Kind == opCas) && o.Out.OK:
			v = o.In.Key + "=" + o.In.Val
		default:
			continue
		}
		if prev, ok := cl.verVal[o.Ver]; ok && prev != v {
			r.Violate(cl.prop+"/version-id-reported-with-two-values"+cl.label(), cl.why()+fmt.Sprintf("version id %d: %s and %s", o.Ver, prev, v), cl.witness(o.In.Key))
		}
		cl.verVal[o.Ver] = v
	}
	var hist []porcupine.Operation
	maxTick := cl.clock.Load() + 10
	for _, o := range ops {
		if o.In.Kind == opDelRange {
			continue
		}
		ret := o.Ret
		if ret == inf {
			ret = maxTick
		}
		hist = append(hist, porcupine.Operation{ClientId: o.Client, Input: o.In, Output: o.Out, Call: o.Call, Return: ret})
	}
	r.Count("partitions_checked", int64(len(cl.keys)))
	res, info := porcupine.CheckOperationsVerbose(regModel, hist, 60*time.Second)
	switch res {
	case porcupine.Ok:
	case porcupine.Unknown:
		r.Inconclusive("linearizability checker timed out")
	case porcupine.Illegal:
		// find the offending key: check partitions one by one
		bad := ""
		for _, part := range regModel.Partition(hist) {
			single := regModel
			single.Partition = nil
			if porcupine.CheckOperations(single, part) == false {
				bad = part[0].Input.(opIn).Key
				break
			}
		}
		_ = info
		r.Violate(cl.prop+"/history-not-linearizable"+cl.label(), cl.why()+fmt.Sprintf("no sequential order of the operations on key %s explains the results", bad), cl.witness(bad))
	}
}

// ---------- runner ----------

func runCluster(prop, part, tier string, seed uint64, idx int) core.Result {
	r := core.NewR(part, idx)
	rng := core.CaseSeed(seed, part, idx)
	s, cleanup, err := newSched(prop, r, rng, true)
	if err != nil {
		r.Inconclusive(err.Error())
		return r.Done()
	}
	defer cleanup()
	s.ownWrites = false
	s.m.mu.Lock()
	s.m.clock = new(atomic.Int64)
	s.m.mu.Unlock()
	cl := &cluster{s: s, prop: prop, clock: s.m.clock, leadersAcked: map[string]bool{}, verVal: map[int64]string{}, readTimeout: 500 * time.Millisecond}
	nkeys, nclients := 8, 4
	if prop == "C02" {
		nkeys, nclients = 6, 5
	}
	for i := 0; i < nkeys; i++ {
		cl.keys = append(cl.keys, fmt.Sprintf("k%d", i))
	}
	if !s.waitSteady(5 * time.Second) {
		r.Inconclusive("no initial leader")
		return r.Done()
	}
	mix := func(g *randSrc) opKind {
		p := g.intn(100)
		if prop == "C01" {
			switch {
			case p < 70:
				return opPut
			case p < 88:
				return opDel
			case p < 91:
				return opDelRange
			default:
				return opGet
			}
		}
		switch {
		case p < 35:
			return opPut
		case p < 50:
			return opCas
		case p < 60:
			return opDel
		default:
			return opGet
		}
	}
	var wg sync.WaitGroup
	for i := 0; i < nclients; i++ {
		wg.Add(1)
		cs := rng.Uint64()
		go func() {
			defer wg.Done()
			cl.client(cs, mix)
		}()
	}
	steps := 8 + rng.IntN(7)
	lastLeader := ""
	for i := 0; i < steps && r.Violations() == 0; i++ {
		s.step(false)
		// keep histories short enough for the checker
		cl.mu.Lock()
		n := len(cl.ops)
		cl.mu.Unlock()
		if n > 1000 {
			break
		}
		if prop == "C01" {
			// on-line: what does a newly installed leader expose? (reads are taken while the clients keep writing;
			// the oracle only uses operations that had returned before each read was invoked)
			d := s.h.Durable()
			if ln := s.leaderName(); ln != "" && fmt.Sprintf("%s@%d", ln, d.Term) != lastLeader {
				lastLeader = fmt.Sprintf("%s@%d", ln, d.Term)
				mark := len(cl.ops)
				if reads, ok := cl.finalReads(); ok {
					// only a leader that was still the leader of the highest stored term after the reads counts
					// (a deposed one may serve an older state)
					still := true
					for _, rd := range reads {
						if lc, err := s.c.Node(rd.Node).Leader(); err != nil || lc.Term() != rd.Term || s.h.Durable().Term != rd.Term {
							still = false
						}
					}
					if still {
						r.Count("leaders_read_after_election", 1)
						cl.checkDurability(reads, "later-leader")
					}
				} else {
					cl.mu.Lock()
					if mark <= len(cl.ops) {
						// drop a partial round of reads (they are not client operations)
					}
					cl.mu.Unlock()
				}
			}
		}
	}
	cl.readTimeout = 3 * time.Second
	steady := s.settle()
	// let the clients run a little on the settled shard, then stop them
	time.Sleep(50 * time.Millisecond)
	cl.stop.Store(true)
	wg.Wait()
	s.over.Store(true)
	if !steady {
		r.Inconclusive("no leader could be installed at the end (bounded wait)")
	}
	var fp []string
	cl.mu.Lock()
	completed, open, strict, stale, acked := 0, 0, 0, 0, 0
	for _, o := range cl.ops {
		fp = append(fp, describeOp(o))
		switch {
		case !o.Out.Known:
			open++
		default:
			completed++
			if o.In.Kind == opGet {
				if o.In.Stale {
					stale++
				} else {
					strict++
				}
			} else if o.Out.OK {
				acked++
			}
		}
	}
	leaders := len(cl.leadersAcked)
	cl.mu.Unlock()
	r.Count("ops_completed", int64(completed))
	r.Count("ops_open", int64(open))
	r.Count("strict_reads", int64(strict))
	r.Count("stale_allowed_reads", int64(stale))
	r.Count("acked_writes", int64(acked))
	r.Count("leaders_that_acked", int64(leaders))
	r.Count("serving_leaders", int64(leaders))
	if steady && r.Violations() == 0 {
		// queued elections (a pending swap, a late failure notification) may still run: retry for a bounded time
		var reads map[string]*histOp
		ok := false
		start := time.Now()
		restarted := false
		for deadline := start.Add(20 * time.Second); !ok && time.Now().Before(deadline); {
			s.healthCheck()
			if !restarted && time.Since(start) > 6*time.Second {
				// the controller may be busy for minutes (e.g. waiting for a follower to catch up inside a swap)
				restarted = true
				s.restartCoordinator()
			}
			if !s.waitSteady(2 * time.Second) {
				continue
			}
			mark := len(cl.ops)
			if reads, ok = cl.finalReads(); !ok {
				cl.ops = cl.ops[:mark] // drop the partial round
				time.Sleep(20 * time.Millisecond)
			}
		}
		if !ok {
			r.Inconclusive("final reads failed on the settled leader: " + cl.finalWhy)
		} else {
			if prop == "C01" {
				cl.checkDurability(reads, "final-leader")
				cl.checkAckedVersions()
			}
		}
	}
	if prop == "C02" && r.Violations() == 0 {
		cl.checkLinearizable()
	}
	r.FP(s.level, strings.Join(fp, ";"))
	if prop == "C01" && leaders >= 2 && acked >= 30 {
		r.Nontrivial()
	}
	if prop == "C02" && leaders >= 2 && completed >= 150 {
		r.Nontrivial()
	}
	if idx < 2 {
		cl.mu.Lock()
		var sample []string
		for i, o := range cl.ops {
			if i < 25 {
				sample = append(sample, describeOp(o))
			}
		}
		cl.mu.Unlock()
		r.Sample(map[string]any{"fault_level": s.level, "ops": completed + open, "first_ops": sample, "leaders": leaders})
	}
	return r.Done()
}

var _ = model.ShardStatusSteadyState
