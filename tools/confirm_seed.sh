#!/bin/sh
# usage: tools/confirm_seed.sh <outdir> <m-number> <pkgdir> [extra test pkgs...]
# Confirms a seeded mutation independently in a scratch worktree: demo passes on clean tree, patch applies and builds,
# demo fails with the patch, the touched package's existing tests still pass. Prints a one-line verdict per step.
set -u
OUT=$1; M=$2; PKG=$3; shift 3
WT=/tmp/confirm-$$
export GOFLAGS=-mod=mod GOPROXY=off
git -C /repo worktree add -q "$WT" HEAD || exit 2
trap 'git -C /repo worktree remove --force "$WT" >/dev/null 2>&1' EXIT
cd "$WT" || exit 2
DEMO=$(basename "$OUT")_m${M}_demo_test.go
cp "$OUT/m${M}_demo_test.go" "$PKG/$DEMO"
RUN=$(grep -o 'func Test[A-Za-z0-9_]*' "$PKG/$DEMO" | sed 's/func //' | paste -sd'|')
if go test -count=1 -run "^($RUN)\$" "./$PKG/" >/tmp/confirm-clean.log 2>&1; then echo "demo on clean tree: PASS"; else echo "demo on clean tree: FAIL (bad seed)"; tail -5 /tmp/confirm-clean.log; fi
git apply "$OUT/m${M}.patch.diff" || { echo "patch does not apply"; exit 1; }
if go build ./... >/tmp/confirm-build.log 2>&1; then echo "build with patch: OK"; else echo "build with patch: FAIL"; tail -5 /tmp/confirm-build.log; fi
if go test -count=1 -run "^($RUN)\$" "./$PKG/" >/tmp/confirm-mut.log 2>&1; then echo "demo with patch: PASS (seed does not manifest)"; else echo "demo with patch: FAIL (as intended)"; fi
rm -f "$PKG/$DEMO"
if go test -count=1 "./$PKG/" "$@" >/tmp/confirm-suite.log 2>&1; then echo "existing tests with patch: PASS"; else echo "existing tests with patch: FAIL"; grep -E "^(--- FAIL|FAIL)" /tmp/confirm-suite.log | head -5; fi
