#!/usr/bin/env python3
"""Regenerates /verif/MANIFEST.json from the table below (kept next to the checks it describes)."""
import json, subprocess, sys

props = [json.loads(l)['id'] for l in open('/verif/properties.jsonl')]

CLAIMED = {
 "C09": dict(engine="walmodel", level="exploration",
   text="Seeded operation sequences on the real WAL (segment sizes 128B..4KiB so that rollovers/truncations land on, before and after segment boundaries) are compared with a list model after every step; trimming is checked with a mocked clock through a verif shim; concurrent readers run under the race detector. Sampled, not exhaustive: it says the WAL matched the model on the sequences listed in the evidence.",
   note="Trusts the list model written from the property text; power-loss durability is C10's side; time-based trimming is observed via the hook wal.trim.tick.",
   technique="reference-model monitor over seeded op sequences + invariant hook + race detector"),
 "C10": dict(engine="walmodel", level="fault_enumeration",
   text="For each generated WAL (v2 written by the real code, v1 segments written with the v1 codec) every subset of differing 4KiB pages of the unsynced tail (<=8 pages; sampled above) is persisted and reopened, and a fixed table of header-field values plus zero/random/bit-flip damage is applied to selected committed and uncommitted records and index files (also a damaged record together with a torn index file of its closed segment, so that the index is rebuilt over the damage); each reopened copy is read back entry by entry and compared bit-for-bit with what was appended. Panics are caught per reopen, runaway recovery by a watchdog with heap-growth evidence.",
   note="Page granularity 4KiB is assumed; the commit-offset provider is truthful (component level); file truncation is not generated (the property lists torn writes, zeroed and random bytes).",
   technique="fault injection (page-subset crash images, header/payload/index corruption) + bit-exact read-back oracle"),
 "C18": dict(engine="coordpure", level="exploration",
   text="GenerateShards is checked for every shard count up to 4096 (quick) / 16384 (thorough) and sampled far above; ApplyClusterChanges is folded over seeded config-change sequences with the real ensemble selector as supplier and after every step each namespace must partition [0,2^32-1] with never-reused ids. A third part pushes successive assignments (splits, merges, re-creation with other shard counts under fresh ids) through a fake service to the real client and checks, from the shard id each request arrives on, that every probe key is routed to the one shard of the current assignment that owns its hash.",
   note="Namespaces with a shard in Deleting state are excluded on purpose (legitimate transient). Shard counts are sampled above the exhaustive bound.",
   technique="invariant checks over enumerated shard counts and seeded config-change sequences"),
 "C19": dict(engine="coordpure", level="exploration",
   text="Seeded clusters/labels/policies/RF/placements are fed to the real ensemble selector and to a real load balancer over real status/config resources; every returned ensemble and every proposed swap is checked against the property's predicate (RF distinct members of the cluster, strict anti-affinity, target not in the ensemble, one member replaced). Panics are verdicts.",
   note="For a strict rule listing several labels only the reading common to both plausible semantics is enforced (two members agreeing on all labels of the rule); members that left the cluster config have no labels and are not compared.",
   technique="predicate oracle over seeded inputs (selectors) and over the balancer's action stream"),
 "C12": dict(engine="kvmodel", level="exploration",
   text="Seeded request sequences against an RF=1 leader (real WAL, Pebble, session and index callbacks); every response field and, periodically and after restarts, the whole user-visible state plus the raw DB (shadow keys, index entries, session keys) is compared with a sequential reference model written from the property text, with an independent implementation of the key order.",
   note="The model is a second implementation (disagreements are triaged against the property text first); version ids are only required to be strictly increasing, the actual ids are adopted by the model.",
   technique="reference-model monitor (differential testing against a sequential spec)"),
 "C13": dict(engine="kvmodel", level="exploration",
   text="Protobuf-level hostile WriteRequests from a fixed feature table are sent to an RF=1 leader; a request either is refused before it reaches the log (InvalidArgument and the WAL did not grow) or must yield a per-operation status; afterwards the node must restart and lead again without its term regressing, a fresh replica must be able to apply the whole log, and the notification stream must be readable. The table includes overwrites of an indexed record with fewer, more, repeated or no index entries, in one request. After an apply error the node is examined, replaced, and the sequence continues, so one finding does not mask the following features.",
   note="Goes through LeaderController.WriteBlock, the entry point the public RPC server calls for every client write.",
   technique="hostile-input fault injection + total-function oracle (no error / no panic / restartable / replayable)"),
 "C15": dict(engine="kvmodel", level="exploration",
   text="Seeded write sequences with records declaring entries in index names that are adjacent in key order; after every request the raw index entries equal the model's derived view and a battery of list / range-scan / comparison gets per index (probes at, between, below the first and above the last entry, and on an index that does not exist) equals a sorted reference restricted to that index.",
   note="In every third case the secondary keys and probes contain '/': inside one index the reference orders entries by the store's hierarchical key order of the secondary key (the order the server itself applies in doSecondaryGet), by an independent implementation; for comparison gets the reference fixes the secondary key and accepts any primary carrying it (ties are not specified by the property).",
   technique="reference-model monitor + derived-view invariant on the raw DB"),
 "C16": dict(engine="kvmodel", level="exploration",
   text="Sequential puts on prefixes with 1..3 levels are compared with exact math/big arithmetic and checked for freshness against the state before each put; subscribers are opened at seeded moments and held by hooks in the windows of GetSequenceUpdates while puts complete, and at quiescence (all writes returned) the last value of each subscriber must be the latest generated key. A third part sends requests carrying sequential puts on several prefixes at once (one prefix a textual prefix of another), with a subscriber per prefix: every subscriber receives only keys of its own prefix, in order, ending with that prefix's latest. Subscriber part runs under the race detector.",
   note="'Eventually observes' is restated as 'at quiescence'; the hold is placed on the subscriber side only (writer-side window between notification and commit is not widened).",
   technique="reference-model monitor (exact arithmetic) + hook-widened interleavings with a quiescence oracle + race detector"),
 "C17": dict(engine="kvmodel", level="exploration",
   text="Per committed request the reference model yields the expected notification batch; a subscriber reading through GetNotifications is cut and resumed with the last offset it saw at seeded points (one across a restart into a new term), with a hook widening the reader's check-then-wait window; order, exactly-one-batch-per-request, content, no internal keys, no loss/duplicate across resumptions are checked, and a stalled delivery is confirmed by logical evidence (it resumes only when one more request is committed). Trimming is exercised on a bare DB with a mocked clock: every batch inside retention must still be delivered, including one committed from a hook between a trimming round's scan and its range delete.",
   note="The RF=1 parts cannot show uncommitted requests; a fourth part (C17.repl, three real nodes) covers them: a subscriber starting 'now' while appended requests are uncommitted must not be positioned beyond the commit offset, nothing above it is delivered meanwhile, and subscribers resume on another node after an election without loss or duplicate. Delivery of the last batch is judged at quiescence.",
   technique="reference-model monitor over the notification stream + hook-widened interleaving + resumption oracle"),
 "C11": dict(engine="kvorder", level="exploration",
   text="Comparator laws, agreement with an independent span-list implementation and the engine contract (Separator in [a,b), Successor >= a, AbbreviatedKey consistent, all in slash order) on generated tuples from an alphabet built around '/'; then real Pebble-backed KVs are loaded with data sets spanning tens of 64KiB blocks and every stored key / floor / ceiling / lower / higher / range scan is compared with a reference sorted by the independent order, before and after flushes and overwrites.",
   note="Pebble's own correctness for a coherent comparer is trusted; empty probe keys are skipped for comparison gets (an empty bound means unbounded for the engine iterators).",
   technique="algebraic law checking on generated tuples + differential test of the engine against a sorted reference"),
 "C08": dict(engine="repl", level="exploration",
   text="Real leader and follower controllers wired by harness-owned in-memory streams: 2..32 concurrent writers (WriteBlock and Write callbacks) with RF 1/2/3/5, a yield/sleep hook between offset allocation and WAL append, per-link ack delays and a cursor cut/re-attach; hook and stream monitors check every write succeeds, own-response (version id read back), contiguous distinct WAL entries, consecutive apply offsets, commit monotone <= head and never beyond what RF/2 followers acknowledged for the whole prefix, commit == head at quiescence; runs under the race detector. The quorum tracker is additionally driven directly against a three-line model (incl. acks ahead of the head). The tracker part also registers waiting callers (in offset order, several per offset) that must be completed exactly when their offset commits; the pipeline part checks at the WAL's group sync that nothing appended after a flush began is reported as synced by it. A third part (C08.stream, engine client) runs a real standalone server on loopback gRPC and pipelines raw WriteStream requests whose answers are recognisable: the i-th answer of a stream must belong to its i-th request, version ids increase along a stream.",
   note="'All succeed' is restated as: every write returns OK before a generous watchdog while the quorum is healthy (watchdog => inconclusive, error => violation).",
   technique="invariant monitors on hooks and on the replication streams under concurrent stress + race detector + component model check"),
 "C03": dict(engine="repl", level="exploration",
   text="Seeded schedules on 3 or 5 real nodes (through the real ShardsDirector, harness-owned replication streams, the harness as coordinator): write bursts, stalled/delayed/cut links with re-delivery, restarts, wipes with snapshot install at several chunk sizes, leaders deposed with an unreplicated tail, elections with random majority fence sets. At every ack, in the follower's goroutine before the ack leaves, the follower's synced log is compared with the leader's at the newly acknowledged offsets; a re-delivered Truncate of the current term must not cut entries the follower acknowledged in that term; a commit offset that advanced in the current term must be backed by a majority made of the leader and followers that sent an acknowledgement for it on a stream of that term, installed a snapshot reaching it, or were attached with a reported (or truncated-to) head reaching it; the first acknowledgement of a stream after a snapshot install must find the follower's log beginning no later than the offset after the snapshot; every database instance's applied offsets must be consecutive (the first apply of an instance against the commit offset it stored); at quiescence logs up to the commit offset and decoded DB dumps of replicas at the same commit offset must be identical. Runs under the race detector.",
   note="The leader's log is the reference for its own term; a wiped node does not count towards a fencing quorum until it has caught up ('a majority keeps its disk'); nodes that AddFollower refuses for good are given an empty disk by the harness (availability matter, see DESIGN.md). Known protocol-level findings are classified by the shape of the divergence so that other divergences are still reported.",
   technique="online invariant monitor at the ack hook + offline replica comparison at quiescence under fault injection + race detector"),
 "C04": dict(engine="repl", level="exploration",
   text="The C03 schedules with fences placed inside fire-and-forget write bursts while hooks delay the follower's sync goroutine and the writers. After every NewTerm answer the node's synced AND appended log end must equal the reported head and stay equal while polled, a client write must be refused, stale Truncate/BecomeLeader/AddFollower of the previous term must be refused and change nothing, no ack above the reported head may leave on a stream of an older term, and a write that was in flight when the leader was fenced may not be acknowledged to its client after the fence was answered unless it was committed before (a racing client writes during every fence, with holds of 5-20 ms at the WAL hand-off).",
   note="'Never again' is checked up to the end of each finite run; acks at or below the reported head that leave after the answer are not counted as progress (the entries are part of the reported log).",
   technique="invariant monitor over hook and stream events with hook-widened fence windows + race detector"),
 "C06": dict(engine="repl", level="exploration",
   text="One generated request sequence (sessions created/closed, ephemerals, sequence puts, indexes, conditional ops, ranges on both sides of the 100-key switch) is applied on a real 3-node group and the same applied offset is reached by six routes: leader live, follower live, follower replaying from a crash image of its database, follower rebuilt from a snapshot (chunk 64B..1MiB) plus the tail, a fresh database folded over the leader's log, replicas with explicit flushes; decoded full dumps (notification batches compared semantically, everything else byte-exact, node-local term keys excluded) are compared pairwise at equal applied offsets.",
   note="Time-based notification trimming is node-local by design and disabled (1h retention) in these runs; the C03 schedules add the same dump comparison under elections.",
   technique="differential replay: dump-and-compare across application routes"),
 "C07": dict(engine="repl", level="fault_enumeration",
   text="On an RF=1 leader under 1..8 concurrent writers with explicit flushes, a crash image (Pebble checkpoint = durable state without memtable + copy of the WAL directory, taken while the goroutine at the crash point is held) is produced at every hit of the apply/term hooks (evenly thinned to <= 60 per scenario). Every image is opened raw (commit offset within its log; dump == fresh DB folded over its log [0..c]) and through the real restart path (replay starts at c+1, applied offsets consecutive, final dump == fold of the whole image log). Online: applied offsets consecutive on every database instance (also in the C03 schedules with followers). A second part runs three nodes: a follower that catches up several entries in one round and is crashed to its flushed image at a seeded moment, and an election that is abandoned before its quorum while the node holds an uncommitted tail; stored commit offsets must stay within the node's log and within what some leader committed, nothing uncommitted may be applied, and replicas at the same applied offset must hold the same dump.",
   note="The fold uses the same ProcessWrite; skipped, doubled or reordered application changes version ids and modification counts and shows in the dumps. Crash points inside Pebble's own flush are not enumerated (images whose two copies straddle a flush are discarded and counted).",
   technique="crash-point fault injection at hooks + recovery oracle (state == fold of the log)"),
 "C05": dict(engine="coord", level="fault_enumeration",
   text="The real coordinator ShardController and StatusResource run over a harness-owned metadata store and coordination-RPC layer against 5 real storage nodes (real ShardsDirector, WAL, Pebble). Seeded schedules inject: coordinator death at chosen points (before/after the k-th metadata write; at the send or after the execution of the k-th NewTerm/BecomeLeader/AddFollower/DeleteShard) followed by a restart from the stored metadata, per-message loss (request or response) and delay, node process crashes (database back to its flushed image) and restarts, also between a node's NewTerm answer and BecomeLeader, leader-failure notifications (true and false), node swaps, a status loaded with its version before an election and swapped in after it (the config-change path), and exact re-deliveries of earlier requests. Monitors run under the harness lock in record order and decide: durable-before-send, stored term never decreases, no term reuse across incarnations, one BecomeLeader target / one OK answer / one LEADER report / one stored leader per term, leader and followers are fenced members of the stored ensemble with the answered heads and the leader's head maximal, fenced majority of the ensemble, node terms never regress (answers, status polls, flushed crash image at the answer). A second part watches the real file metadata provider with concurrent observers for torn states.",
   note="Crash points are sampled by (kind, ordinal) per schedule, not enumerated exhaustively per election; the 15-minute give-up of the status resource's retry loop (after which an election would proceed without a durable term) is out of reach of a bounded run and is described in DESIGN.md. Safety only: elections that never complete are counted, not judged.",
   technique="fault injection at coordinator crash points / message loss / node crashes + online trace monitors over recorded RPCs and metadata writes + race detector"),
 "C01": dict(engine="coord", level="exploration",
   text="4 clients write (unique values), delete and range-delete 8 keys through whichever node the stored shard metadata names as leader, against 5 real storage nodes under the real coordinator ShardController, while the C05 nemesis runs (leader and node process crashes to the flushed database image, restarts, stalled followers, node swaps, coordinator deaths at chosen points and restarts, lost/delayed coordination messages). Every call is recorded at the client boundary with call/return ticks of one logical clock. After the faults stop a leader is awaited (bounded) and every key is read from it: the value must not come from a write that had returned before an acknowledged write or delete of that key was invoked, absence needs a delete that can be ordered after every acknowledged put, and a value nobody wrote is a violation. An election that installs a leader whose log ends below a commit offset some leader had reported is recorded and used to label the violation with its root cause.",
   note="'As long as a majority keeps its disk': the harness never removes a disk (crash = process crash; the only wipes are the coordinator's own DeleteShard). Failed/timed-out operations are treated as possibly applied at any later time. Session create/close are covered by C14, not here.",
   technique="recorded client history + durability oracle over call/return order at quiescence, under fault injection + race detector"),
 "C02": dict(engine="coord", level="exploration",
   text="5 clients (put, conditional put on the version last seen, delete, get; 6 keys; unique values) under the C01 nemesis; each operation is recorded at the client boundary with call/return ticks, serving node and its term; failed or timed-out operations stay open to the end of the history and retire their client id. porcupine checks every per-key sub-history against a register model in which a get served by a node whose term was still the highest stored term when it returned must see the latest value, and a get served by an already superseded leader may see any earlier committed value but nothing unwritten; every version id must be reported with one value only; final reads on the last leader close the history.",
   note="Per-key partitioning (list / range-scan / delete-range are checked sequentially by C12 and for durability by C01, not for linearizability); checker timeout (60 s) is inconclusive. Conditional puts are modelled on values (version ids and values are 1:1, which is itself checked).",
   technique="recorded client history + porcupine linearizability check (per-key register model with stale-read allowance) under fault injection + race detector"),
 "C14": dict(engine="kvmodel", level="exploration",
   text="Three parts on an RF=1 leader (real WAL, Pebble, session manager). (1) Session-centred seeded sequences over few keys (ephemeral puts, take-overs by other sessions and plain puts, deletes, ranges, writes naming closed/unknown sessions, CloseSession, leader restarts into a new term); after every step responses and the raw database (records with owner, session keys, exactly one shadow key per owned record) are compared with the reference model. (2) Cleanup against concurrent writers: the hook between listing a session's keys and the cleanup write runs 1..4 writes of other clients (and of the closing session) on those keys (every fifth case: the session owns nothing at the listing and gets its first records in that window), for CloseSession and for real expiry; answers and final state must match the model for some position of an atomic close in that sequence. (3) Real 2 s sessions with seeded heartbeat schedules and a leader restart, polled every 10 ms: no expiry unless a full timeout without (re)arming can have elapsed, records gone in the same observation as the session, writes naming the expired session refused.",
   note="Timers are real (no clock is injectable in session.go): the expiry part measures time, with the heartbeat's send time as the conservative bound; late expiry is counted, not judged. Leader change is a restart of the single node into a new term; multi-node failover with sessions in the log is covered by the C06 routes.",
   technique="reference-model monitor + hook-driven interleaving with an atomicity oracle (all linearization points tried) + timed observation of real session timers"),
 "C20": dict(engine="client", level="exploration",
   text="The real public async client (oxia.NewAsyncClient) talks over loopback gRPC to a fake OxiaClient service whose answers are a function of the request alone and which logs everything it receives. Batching: 2..8 caller goroutines, linger 0/1/5 ms, 1/2/7/1000 requests per batch, values up to 60 KB (byte-size splits), 1..6 shards, retriable and non-retriable failures of the k-th write/read request of a shard, per-shard delays; every channel must yield exactly one result, that of its own operation, failed operations were never applied, successful ones exactly once. Fan-out: list / range-scan / floor-ceiling-lower-higher gets over 2..7 shards with chunked, delayed per-shard answers, with and without partition key, with one or all shards failing; results are compared with the union computed by an independent implementation of the key order, and every call must terminate.",
   note="A write stream ended by the service with a status surfaces in the client as EOF, so operations on it fail rather than being retried: counted as failure reports (the property allows an operation to complete with an error), not as violations. Sessions, notifications and sequence updates of the client are not part of this property.",
   technique="recorded request/response log at a fake service + exactly-once/own-result oracle at the client API under fault injection + race detector"),
}

NOT_APPLICABLE = {}
DEFAULT_NA = "check not built yet in this session (work in progress)"

ENGINES = [
 {"name": "client", "path": "harness/engines/client", "serves_properties": ["C08", "C18", "C20"],
  "kind_free_text": "real public client library over loopback gRPC against a deterministic fake OxiaClient service (lib/fakeoxia); raw gRPC write streams against a real standalone server (C08.stream)"},
 {"name": "coord", "path": "harness/engines/coord", "serves_properties": ["C01", "C02", "C05"],
  "kind_free_text": "real coordinator ShardController + StatusResource over harness-owned metadata store and coordination RPCs (lib/ctl), real storage nodes (lib/replcluster); real file metadata provider under concurrent observers"},
 {"name": "repl", "path": "harness/engines/repl", "serves_properties": ["C03", "C04", "C06", "C07", "C08", "C17"],
  "kind_free_text": "real leader/follower controllers through the real ShardsDirector, wired by harness-owned in-memory replication streams; harness plays coordinator"},
 {"name": "kvorder", "path": "harness/engines/kvorder", "serves_properties": ["C11"],
  "kind_free_text": "key-order laws and Pebble-backed KV vs sorted reference"},
 {"name": "kvmodel", "path": "harness/engines/kvmodel", "serves_properties": ["C12", "C13", "C14", "C15", "C16", "C17"],
  "kind_free_text": "RF=1 leader (real WAL/Pebble/callbacks) vs sequential reference model; hostile protobuf-level requests"},
 {"name": "coordpure", "path": "harness/engines/coordpure", "serves_properties": ["C18", "C19"],
  "kind_free_text": "coordinator decision functions (shard ranges, cluster-change folding, ensemble selection, balancer proposals)"},
 {"name": "walmodel", "path": "harness/engines/walmodel", "serves_properties": ["C09", "C10"],
  "kind_free_text": "real WAL vs list model; damaged-copy recovery"},
]

def main():
    commits = subprocess.run(["git", "-C", "/repo", "log", "--reverse", "--format=%h", "--grep=^verif:"],
                             capture_output=True, text=True).stdout.split()
    checks = []
    for pid in props:
        c = CLAIMED.get(pid)
        if not c:
            continue
        checks.append({
            "property_id": pid,
            "quick_cmd": f"./check run {pid} --tier quick",
            "thorough_cmd": f"./check run {pid} --tier thorough",
            "evidence_file": f"/verif/evidence/{pid}.json",
            "replay_cmd_template": "./check replay {path}",
            "engine": c["engine"],
            "level_claimed": {"category": c["level"], "text": c["text"], "design_ref": f"DESIGN.md section 5, {pid}"},
            "level_note": c["note"],
            "technique": c["technique"],
        })
    m = {
        "version": 1,
        "setup_cmd": "./check setup",
        "hooks": {
            "guard": "verif",
            "enable": "go build -tags verif (./check builds /verif/harness, whose go.mod replaces github.com/oxia-db/oxia with /repo, with -tags verif)",
            "baseline_off_cmd": "cd /repo && go test -mod=mod -vet=off -count=1 -timeout 25m ./...",
            "source_commits": commits,
            "add_only": True,
        },
        "engines": ENGINES,
        "checks": checks,
        "not_applicable": [{"property_id": p, "reason": NOT_APPLICABLE.get(p, DEFAULT_NA)} for p in props if p not in CLAIMED],
        "notes": "All checks are runtime monitors over executions of the real code (reference models, invariant hooks, recorded histories, fault injection, race detector); see DESIGN.md.",
    }
    json.dump(m, open('/verif/MANIFEST.json', 'w'), indent=1)
    try:
        import jsonschema
        jsonschema.validate(m, json.load(open('/root/.vp/MANIFEST.schema.json')))
        print("MANIFEST.json valid;", len(checks), "checks")
    except ImportError:
        print("MANIFEST.json written (jsonschema not available)")

if __name__ == "__main__":
    main()
