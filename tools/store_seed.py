#!/usr/bin/env python3
"""usage: store_seed.py <outdir> <m> <seed-id> <prop> <demo-pkg-dir> <needs> <detected: yes|no|partly> <by/notes>"""
import sys, os, shutil, json, subprocess
out, m, sid, prop, pkg, needs, detected, notes = sys.argv[1:9]
d = f"/verif/seeded/{sid}"
os.makedirs(d, exist_ok=True)
shutil.copy(f"{out}/m{m}.patch.diff", f"{d}/patch.diff")
shutil.copy(f"{out}/m{m}_demo_test.go", f"{d}/demo_test.go")
if os.path.exists(f"{out}/m{m}.md"):
    shutil.copy(f"{out}/m{m}.md", f"{d}/author_notes.md")
base = subprocess.run(["git","-C","/repo","log","-1","--format=%h"],capture_output=True,text=True).stdout.strip()
meta = {
 "id": sid, "property": prop,
 "files_touched": sorted(set(l[6:] for l in open(f"{d}/patch.diff") if l.startswith("+++ b/"))),
 "needs_to_manifest": needs,
 "demo": {"file": "demo_test.go", "copy_into": pkg, "fails_with_patch": True, "passes_without": True},
 "confirmed_by_me": "tools/confirm_seed.sh in a scratch worktree of /repo: demo passes on the clean tree, patch applies and builds, demo fails with the patch, the touched package's existing tests pass",
 "repo_base_commit": base,
 "detected_by_checks": detected,
 "detection_notes": notes,
 "how_to_run": f"tools/try_seed.sh seeded/{sid}/patch.diff {prop}",
}
json.dump(meta, open(f"{d}/meta.json","w"), indent=1)
print("stored", d)
