#!/bin/sh
# usage: tools/try_seed.sh <patch.diff> <PROP> [tier] [seed]   -- applies the patch to /repo, runs the check, always reverts
set -u
PATCH=$(readlink -f "$1"); PROP=$2; TIER=${3:-quick}; SEED=${4:-1}
cd /repo || exit 2
if [ -n "$(git status --porcelain)" ]; then echo "repo not clean"; exit 2; fi
git apply "$PATCH" || { echo "patch does not apply"; exit 2; }
cd /verif
VERIF_SEED=$SEED ./check run "$PROP" --tier "$TIER" 2>&1 | cut -c1-400 | grep -E "^VIOLATION|signature=|^$PROP |BROKEN|^KNOWN" | sort | uniq -c | sort -rn | head -12
git -C /repo checkout -- . 
git -C /repo status --porcelain
